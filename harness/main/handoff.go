package main

import (
	"bufio"
	"bytes"
	"context"
	"encoding/json"
	"errors"
	"fmt"
	"io"
	"os"
	"path/filepath"
	"runtime"
	"strconv"
	"strings"
	"sync"
	"syscall"
	"time"

	"github.com/metal-toolbox/auditevent"
	"github.com/prometheus/client_golang/prometheus"
	"go.uber.org/zap"

	"github.com/metal-toolbox/audito-maldito/internal/common"
	"github.com/metal-toolbox/audito-maldito/internal/health"
	"github.com/metal-toolbox/audito-maldito/internal/metrics"
	"github.com/metal-toolbox/audito-maldito/processors/auditd"
	"github.com/metal-toolbox/audito-maldito/processors/sshd"
)

// C10: both pipelines writing concurrently to one event writer over a real O_APPEND file —
// in-process (mode p: real SshdProcessor and Auditd.Read sharing the writer and the unbuffered
// logins channel) and through the daemon built from the working tree (mode d: real FIFOs).

type hsess struct {
	pid  int
	ses  string
	k    int
	base int
}

func parseSessions(x string) []hsess {
	var out []hsess
	for _, s := range strings.Split(x, ",") {
		f := strings.Split(s, ":")
		pid, _ := strconv.Atoi(f[0])
		k, _ := strconv.Atoi(f[2])
		b, _ := strconv.Atoi(f[3])
		out = append(out, hsess{pid, f[1], k, b})
	}
	return out
}

func (s hsess) sshdMsg() string {
	return fmt.Sprintf("Accepted publickey for user%d from 10.0.%d.%d port %d ssh2: ED25519 SHA256:abcdefghijklmnopqrstuvwxyz0123456789ABCDEFG", s.pid, s.pid/250, s.pid%250, 1024+s.pid%60000)
}

// bigEvents: the commands of a session carry a long command line, so that each UserAction is larger than PIPE_BUF
var bigEvents bool

// bigRepeat: how often the 17-byte unit of the long command line is repeated (420: ~7 kB; `big=<n>` on the case line)
var bigRepeat = 420

func (s hsess) auditLines() []string {
	hdr := func(i int) string { return fmt.Sprintf("msg=audit(%d.000:%d):", 1600000000+s.base+i, s.base+i) }
	ls := []string{fmt.Sprintf("type=LOGIN %s pid=%d uid=0 old-auid=4294967295 auid=1000 tty=(none) old-ses=4294967295 ses=%s res=1", hdr(0), s.pid, s.ses)}
	for i := 1; i <= s.k; i++ {
		cmd := "6C73"
		if bigEvents {
			cmd = strings.Repeat("6C73202D6C61202F7372762F646174612F", bigRepeat) // 17 bytes each once decoded
		}
		ls = append(ls, fmt.Sprintf("type=USER_CMD %s pid=%d uid=1000 auid=1000 ses=%s msg='cwd=\"/\" cmd=%s terminal=pts/0 res=success'", hdr(i), s.pid, s.ses, cmd))
	}
	ls = append(ls, fmt.Sprintf("type=CRED_DISP %s pid=%d uid=0 auid=1000 ses=%s msg='op=PAM:setcred grantors=pam_unix acct=\"u\" exe=\"/usr/sbin/sshd\" hostname=h addr=1.2.3.4 terminal=ssh res=success'", hdr(s.k+1), s.pid, s.ses))
	return ls
}

// readEvents turns the output file into items in file order; torn = lines that are not one
// complete JSON event of a known type
//
// wantHost / wantMID: the node name and machine id every event of this daemon must carry as its target
// (in-process: what the processors were constructed with; daemon: NODE_NAME and /etc/machine-id); an event
// with another target, or a UserLogin whose account is not the one of its line, counts as torn as well
var wantHost, wantMID = nodeName, machineID

func readEvents(path string) (torn int, items []string) {
	data, err := os.ReadFile(path)
	if err != nil {
		return 1, nil
	}
	if len(data) > 0 && data[len(data)-1] != '\n' {
		torn++
	}
	for _, ln := range strings.Split(strings.TrimSuffix(string(data), "\n"), "\n") {
		if ln == "" {
			if len(data) > 0 {
				torn++
			}
			continue
		}
		var ev auditevent.AuditEvent
		dec := json.NewDecoder(strings.NewReader(ln))
		dec.DisallowUnknownFields()
		if err := dec.Decode(&ev); err != nil || dec.More() {
			torn++
			continue
		}
		if ev.Target["host"] != wantHost || ev.Target["machine-id"] != wantMID || ev.Component == "" {
			torn++
			continue
		}
		switch ev.Type {
		case common.ActionLoginIdentifier:
			if ev.Outcome != auditevent.OutcomeSucceeded {
				// a failed login of the noise stream: identified by its port
				items = append(items, fmt.Sprintf("F:%v", ev.Source.Extra["port"]))
				continue
			}
			if ev.Subjects["loggedAs"] != "user"+ev.Subjects["pid"] {
				torn++
				continue
			}
			items = append(items, "L:"+ev.Subjects["pid"])
		case common.ActionUserAction:
			items = append(items, fmt.Sprintf("A:%s:%d", ev.Metadata.AuditID, ev.LoggedAt.Unix()))
		default:
			torn++
		}
	}
	return
}

// parkedIn reports whether some Go routine whose stack contains fn is blocked in a select
func parkedIn(buf []byte, fn string) bool {
	n := runtime.Stack(buf, true)
	for _, blk := range strings.Split(string(buf[:n]), "\n\n") {
		lines := strings.Split(blk, "\n")
		if len(lines) < 2 || !strings.HasPrefix(lines[0], "goroutine ") {
			continue
		}
		for _, ln := range lines[1:] {
			if strings.HasPrefix(ln, fn) {
				i := strings.Index(lines[0], "[")
				return i >= 0 && strings.HasPrefix(lines[0][i+1:], "select")
			}
		}
	}
	return false
}

func noiseMsg(i int) string {
	return fmt.Sprintf("Invalid user n%d from 10.1.1.1 port %d", i, 20000+i)
}

func runHandoffInProcess(ss []hsess, delaySshd, delayAudit int, rng *uint64, noise int) string {
	dir, err := os.MkdirTemp("", "verif-handoff")
	if err != nil {
		return "T:1|"
	}
	defer os.RemoveAll(dir)
	outPath := filepath.Join(dir, "events.log")
	f, err := os.OpenFile(outPath, os.O_WRONLY|os.O_APPEND|os.O_CREATE, 0o600)
	if err != nil {
		return "T:1|"
	}
	defer f.Close()
	auditd.SetLogger(zap.NewNop().Sugar())
	sshd.SetLogger(zap.NewNop().Sugar())
	ew := auditevent.NewDefaultAuditEventWriter(f)
	logins := make(chan common.RemoteUserLogin)
	audits := make(chan string, 10000)
	ctx, cancel := context.WithCancel(context.Background())
	defer cancel()
	reg := prometheus.NewRegistry()
	proc := sshd.NewSshdProcessor(ctx, logins, nodeName, machineID, ew, metrics.NewPrometheusMetricsProviderForRegisterer(reg))
	ap := auditd.Auditd{Audits: audits, Logins: logins, EventW: ew, Health: health.NewHealth()}
	done := make(chan error, 1)
	go func() { done <- ap.Read(ctx) }()
	next := func(n int) int {
		*rng += 0x9E3779B97F4A7C15
		z := *rng
		z = (z ^ (z >> 30)) * 0xBF58476D1CE4E5B9
		z = (z ^ (z >> 27)) * 0x94D049BB133111EB
		z ^= z >> 31
		return int(z % uint64(n))
	}
	pausesS := make([]int, len(ss))
	for i := range pausesS {
		if next(3) == 0 {
			pausesS[i] = next(300)
		}
	}
	var wg sync.WaitGroup
	wg.Add(2)
	go func() {
		defer wg.Done()
		time.Sleep(time.Duration(delaySshd) * time.Microsecond)
		per := 0
		if len(ss) > 0 {
			per = noise / len(ss)
		}
		k := 0
		for i, s := range ss {
			if pausesS[i] > 0 {
				time.Sleep(time.Duration(pausesS[i]) * time.Microsecond)
			}
			if err := proc.ProcessSshdLogEntry(ctx, sshd.SshdLogEntry{PID: strconv.Itoa(s.pid), Message: s.sshdMsg()}); err != nil {
				return
			}
			for j := 0; j < per || (i == len(ss)-1 && k < noise); j++ {
				if err := proc.ProcessSshdLogEntry(ctx, sshd.SshdLogEntry{PID: "5", Message: noiseMsg(k)}); err != nil {
					return
				}
				k++
			}
		}
	}()
	go func() {
		defer wg.Done()
		time.Sleep(time.Duration(delayAudit) * time.Microsecond)
		// the sessions' records interleaved round-robin: bursts on the audit side
		queues := make([][]string, len(ss))
		for i, s := range ss {
			queues[i] = s.auditLines()
		}
		for left := true; left; {
			left = false
			for i := range queues {
				if len(queues[i]) > 0 {
					select {
					case audits <- queues[i][0]:
					case <-ctx.Done():
						return
					}
					queues[i] = queues[i][1:]
					left = true
				}
			}
		}
	}()
	fed := make(chan struct{})
	go func() { wg.Wait(); close(fed) }()
	select {
	case <-fed:
	case <-time.After(20 * time.Second):
		cancel()
		<-done
		t, items := readEvents(outPath)
		return fmt.Sprintf("T:%d|%s;!hang", t, strings.Join(items, ";"))
	}
	// quiescence: the line buffer is empty and the parser is parked in its select again
	buf := make([]byte, 1<<18)
	deadline := time.Now().Add(10 * time.Second)
	for time.Now().Before(deadline) {
		if len(audits) == 0 && parkedIn(buf, "github.com/metal-toolbox/audito-maldito/processors/auditd.parseAuditLogs(") &&
			parkedIn(buf, "github.com/metal-toolbox/audito-maldito/processors/auditd.(*Auditd).Read(") {
			break
		}
		runtime.Gosched()
	}
	cancel()
	select {
	case <-done:
	case <-time.After(10 * time.Second):
	}
	t, items := readEvents(outPath)
	return fmt.Sprintf("T:%d|%s", t, strings.Join(items, ";"))
}

// fifoOut: the events output is a FIFO whose reader (a log shipper) falls behind and reads in small pieces; the
// commands produce events larger than PIPE_BUF while failed logins are written by the other pipeline
func runHandoffDaemon(ss []hsess, delaySshd, delayAudit int, noise int, fifoOut bool) string {
	out := ""
	var collected []byte
	var cmu sync.Mutex
	readerDone := make(chan struct{})
	var outR *os.File
	if fifoOut {
		odir, err := os.MkdirTemp("", "verif-hofifo")
		if err != nil {
			return "T:1|!start"
		}
		defer os.RemoveAll(odir)
		out = filepath.Join(odir, "events-fifo")
		if err := syscall.Mkfifo(out, 0o600); err != nil {
			return "T:1|!start"
		}
		outR, err = os.OpenFile(out, os.O_RDONLY|syscall.O_NONBLOCK, 0)
		if err != nil {
			return "T:1|!start"
		}
		bigEvents = true
		defer func() { bigEvents = false }()
		go func(r *os.File) {
			defer close(readerDone)
			time.Sleep(250 * time.Millisecond) // the reader is behind: the pipe fills up
			buf := make([]byte, 1024)
			for {
				n, err := r.Read(buf)
				if n > 0 {
					cmu.Lock()
					collected = append(collected, buf[:n]...)
					cmu.Unlock()
				}
				switch {
				case err == nil:
				case errors.Is(err, os.ErrClosed):
					return
				case err == io.EOF: // no writer at the moment
					time.Sleep(500 * time.Microsecond)
				default:
					time.Sleep(200 * time.Microsecond)
				}
			}
		}(outR)
		defer outR.Close()
	}
	if !fifoOut {
		// the output file is not empty when the daemon starts: three events of an earlier run
		var pb strings.Builder
		for i := 0; i < 3; i++ {
			fmt.Fprintf(&pb, "{\"earlier-run\":%d,\"pad\":\"%s\"}\n", i, strings.Repeat("p", 150+40*i))
		}
		daemonPrior = []byte(pb.String())
		defer func() { daemonPrior = nil }()
	}
	d, err := startDaemon(true, true, out)
	if err != nil || d.sshdW == nil || d.auditW == nil {
		if d != nil {
			d.stop()
		}
		return "T:1|!start"
	}
	defer d.stop()
	want := noise
	if !fifoOut {
		want += 3
	}
	for _, s := range ss {
		want += 1 + s.k + 2
	}
	var wg sync.WaitGroup
	wg.Add(2)
	go func() {
		defer wg.Done()
		time.Sleep(time.Duration(delaySshd) * time.Microsecond)
		var b strings.Builder
		per := 0
		if len(ss) > 0 {
			per = noise / len(ss)
		}
		k := 0
		for i, s := range ss {
			fmt.Fprintf(&b, "%d %s\n", s.pid, s.sshdMsg())
			for j := 0; j < per || (i == len(ss)-1 && k < noise); j++ {
				fmt.Fprintf(&b, "5 %s\n", noiseMsg(k))
				k++
				if b.Len() > 3000 {
					d.sshdW.Write([]byte(b.String()))
					b.Reset()
					if bigEvents && !fifoOut {
						// the audit side needs seconds for its oversized records: spread the failed logins over that time
						time.Sleep(4 * time.Millisecond)
					}
				}
			}
			if i%3 == 2 { // bursts of three records per write
				d.sshdW.Write([]byte(b.String()))
				b.Reset()
			}
		}
		if b.Len() > 0 {
			d.sshdW.Write([]byte(b.String()))
		}
	}()
	go func() {
		defer wg.Done()
		time.Sleep(time.Duration(delayAudit) * time.Microsecond)
		queues := make([][]string, len(ss))
		for i, s := range ss {
			queues[i] = s.auditLines()
		}
		var b strings.Builder
		for left := true; left; {
			left = false
			for i := range queues {
				if len(queues[i]) > 0 {
					b.WriteString(queues[i][0] + "\n")
					queues[i] = queues[i][1:]
					left = true
				}
			}
			if b.Len() > 3000 {
				d.auditW.Write([]byte(b.String()))
				b.Reset()
			}
		}
		if b.Len() > 0 {
			d.auditW.Write([]byte(b.String()))
		}
	}()
	wg.Wait()
	deadline := time.Now().Add(8*time.Second + time.Duration(want/2000)*time.Second)
	// count the lines written so far incrementally (the output can be tens of megabytes)
	seenLines, scanned := 0, int64(0)
	var tail *os.File
	if !fifoOut {
		tail, _ = os.Open(d.outPath)
	}
	chunk := make([]byte, 1<<20)
	for time.Now().Before(deadline) {
		if fifoOut {
			cmu.Lock()
			seenLines += bytes.Count(collected[scanned:], []byte{'\n'})
			scanned = int64(len(collected))
			cmu.Unlock()
		} else if tail != nil {
			for {
				n, _ := tail.ReadAt(chunk, scanned)
				seenLines += bytes.Count(chunk[:n], []byte{'\n'})
				scanned += int64(n)
				if n < len(chunk) {
					break
				}
			}
		}
		if seenLines >= want {
			break
		}
		time.Sleep(5*time.Millisecond + time.Duration(want/50)*time.Microsecond)
	}
	if tail != nil {
		tail.Close()
	}
	time.Sleep(30 * time.Millisecond) // anything written twice would show up now
	d.cmd.Process.Signal(syscall.SIGTERM)
	select {
	case <-d.exited:
	case <-time.After(exitBound):
	}
	// the daemon takes its identity from the environment (NODE_NAME, set by startDaemon) and /etc/machine-id
	wantHost = "node-1"
	if b, err := os.ReadFile("/etc/machine-id"); err == nil {
		wantMID = strings.TrimSpace(string(b))
	}
	evPath := d.outPath
	if fifoOut {
		time.Sleep(50 * time.Millisecond)
		outR.Close()
		<-readerDone
		evPath = filepath.Join(d.dir, "collected.log")
		cmu.Lock()
		os.WriteFile(evPath, collected, 0o600)
		cmu.Unlock()
	}
	overwritten := 0
	if !fifoOut {
		// what was there before must still be there, untouched, and everything of this run after it
		data, _ := os.ReadFile(evPath)
		if bytes.HasPrefix(data, daemonPrior) {
			data = data[len(daemonPrior):]
		} else {
			overwritten = 1
		}
		evPath = filepath.Join(d.dir, "this-run.log")
		os.WriteFile(evPath, data, 0o600)
	}
	t, items := readEvents(evPath)
	wantHost, wantMID = nodeName, machineID
	return fmt.Sprintf("T:%d|%s", t+overwritten, strings.Join(items, ";"))
}

func init() {
	// handoff <id> <p|d> <pid:ses:k:base,…> <delaySshd_us>:<delayAudit_us> [seed] [noise=<n>] [big=<repeat>]
	modes["handoff"] = func(in *bufio.Scanner, out *bufio.Writer) {
		rng := uint64(1)
		for in.Scan() {
			f := strings.Fields(in.Text())
			if len(f) < 4 {
				continue
			}
			ss := parseSessions(f[2])
			dl := strings.Split(f[3], ":")
			ds, _ := strconv.Atoi(dl[0])
			da, _ := strconv.Atoi(dl[1])
			if len(f) > 4 {
				s, _ := strconv.ParseUint(f[4], 10, 64)
				rng = s
			}
			noise := 0
			big := 0
			for _, x := range f[4:] {
				if strings.HasPrefix(x, "noise=") {
					noise, _ = strconv.Atoi(x[6:])
				}
				if strings.HasPrefix(x, "big=") {
					big, _ = strconv.Atoi(x[4:])
				}
			}
			if big > 0 {
				bigEvents, bigRepeat = true, big
			}
			var res string
			if f[1] == "d" || f[1] == "f" {
				res = runHandoffDaemon(ss, ds, da, noise, f[1] == "f")
			} else {
				res = runHandoffInProcess(ss, ds, da, &rng, noise)
			}
			if big > 0 {
				bigEvents, bigRepeat = false, 420
			}
			fmt.Fprintf(out, "%s %s\n", f[0], res)
			out.Flush()
		}
	}
}
