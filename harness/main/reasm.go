package main

import (
	"bufio"
	"fmt"
	"strconv"
	"strings"
	"sync"
	"time"

	"github.com/elastic/go-libaudit/v2"
	"github.com/elastic/go-libaudit/v2/auparse"
)

// The go-libaudit Reassembler alone (the library the audit processor is built on) against the
// model of it in AM.Model.AuditProc (put / cleanUp / clear): small tables so that eviction by
// overflow happens, short time-outs so that expiry happens. Every record carries `mark=<k>`.

type groupStream struct {
	mu     sync.Mutex
	groups []string
}

func (s *groupStream) ReassemblyComplete(msgs []*auparse.AuditMessage) {
	var ks []string
	for _, m := range msgs {
		k := "?"
		if i := strings.Index(m.RawData, "mark="); i >= 0 {
			k = strings.Fields(m.RawData[i+5:])[0]
		}
		ks = append(ks, k)
	}
	s.mu.Lock()
	s.groups = append(s.groups, "G:"+strings.Join(ks, ","))
	s.mu.Unlock()
}

func (s *groupStream) EventsLost(int) {}

func runReasm(max int, timeoutMs int, ops []string) string {
	st := &groupStream{}
	r, err := libaudit.NewReassembler(max, time.Duration(timeoutMs)*time.Millisecond, st)
	if err != nil {
		return "!new"
	}
	last := time.Now()
	stalled := false
	for k, op := range ops {
		// a pause of the harness itself long enough for an event to time out on its own would make
		// the run incomparable with the model (which expires events only at `W`)
		if now := time.Now(); now.Sub(last) > time.Duration(timeoutMs)*time.Millisecond/2 {
			stalled = true
		} else {
			last = now
		}
		f := strings.Split(op, ":")
		switch f[0] {
		case "N":
			seq, _ := strconv.Atoi(f[1])
			nargs, _ := strconv.Atoi(f[7])
			line := strings.TrimRight(apLineText(seq, f[2], f[3], unhex(f[4]), unhex(f[5]), f[6], nargs, 0), " ") + " mark=" + strconv.Itoa(k)
			msg, err := auparse.ParseLogLine(line)
			if err != nil {
				return "!parse"
			}
			r.PushMessage(msg)
		case "W":
			time.Sleep(time.Duration(timeoutMs+15) * time.Millisecond)
			r.Maintain()
			last = time.Now()
		case "M":
			r.Maintain()
		}
	}
	st.mu.Lock()
	st.groups = append(st.groups, "|")
	st.mu.Unlock()
	r.Close()
	st.mu.Lock()
	defer st.mu.Unlock()
	if stalled {
		return "!stall"
	}
	return strings.Join(st.groups, ";")
}

func init() {
	// reasm <id> <max> <timeout_ms> <op>;<op>;…
	modes["reasm"] = func(in *bufio.Scanner, out *bufio.Writer) {
		for in.Scan() {
			f := strings.Fields(in.Text())
			if len(f) < 4 {
				continue
			}
			max, _ := strconv.Atoi(f[1])
			to, _ := strconv.Atoi(f[2])
			fmt.Fprintf(out, "%s %s\n", f[0], runReasm(max, to, strings.Split(f[3], ";")))
		}
	}
}
