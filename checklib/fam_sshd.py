"""The sshd family: C05 C06 C11 C17 C19 (direct) and C07 (framed through the syslog ingester)."""
from . import gen_sshd as G
from .run import Family
from .core import hx

COMMON_TRUST = ["Go regexp semantics on the flat fragment (leftmost-first, byte-vs-rune argument of DESIGN C11)",
                "entry-function bodies are hand-modelled (AM.Model.Sshd), tied by the correspondence run",
                "strconv.Atoi, encoding/json string coercion, prometheus CounterVec modelled"]


class SshdFamily(Family):
    harness_mode = ["sshd"]
    uses_gen = ("RE", "ProcessEntry", "userTypeLogAuditFn", "IncLogins", "metrics")
    trusted = COMMON_TRUST
    assumptions = ["observation point: *AuditEvent handed to the EventEncoder, logins channel, private prometheus registry",
                   "the event writer either always succeeds or always fails during one line (one write per line is proved)"]

    def __init__(self, prop):
        self.prop = prop
        self.driver_args = ["sshd", prop]
        # one processor, metrics provider and registry across 40 consecutive lines (as in one daemon
        # run); the counters are read before and after each line
        self.harness_mode = ["sshd", "batch=40"]

    # C06's last clause (this node's name and machine id) also through the daemon built from the working tree: a few
    # sessions in the hand-off family's daemon mode, whose observation counts an event with another target as torn
    def _ho(self):
        from .fam_handoff import HandoffFamily
        return HandoffFamily()

    # … and through the syslog ingester: "the daemon" receives the message framed by rsyslog; the framed path must yield
    # the very event the direct call yields (C07's check, on C06's field values)
    def _c07(self):
        return C07Family()

    def _framed(self, cs, rng):
        """the same messages as the daemon receives them: framed '<pid> <msg>\\n' by rsyslog and handed over by the syslog
        ingester, which must pass on the bytes sshd printed (judged as in C07: same effects as the direct call)"""
        fr = [dict(c, framed=True) for c in self._c07()._prep(cs, rng)]
        self.rule += "; plus %d messages framed '<pid> <msg>\\n' through SyslogIngester.Process (same event as the direct call)" % len(fr)
        return fr

    def modes_for(self, c):
        if c.get("sessions"):
            return (["handoff"], ["handoff"])
        if c.get("framed"):
            return (["c07"], ["c07"])
        return (self.harness_mode, self.driver_args)

    def impl_obs_for(self, c, raw):
        if c.get("framed"):
            return self._c07().impl_obs_for(c, raw)
        return self._ho().impl_obs(raw) if c.get("sessions") else raw

    def harness_line(self, c):
        if c.get("sessions"):
            return self._ho().harness_line(c)
        if c.get("framed"):
            return self._c07().harness_line(c)
        return G.case_line(c["id"], c, with_form=False)

    def driver_line(self, c, impl_obs):
        if c.get("sessions"):
            return self._ho().driver_line(c, impl_obs)
        if c.get("framed"):
            return self._c07().driver_line(c, impl_obs)
        s = G.case_line(c["id"], c, with_form=True)
        if impl_obs is not None:
            s += " obs=" + impl_obs
        return s

    def sample(self, c):
        if c.get("sessions"):
            return self._ho().sample(c)
        return {"form": c.get("form"), "pid": c["pid"], "line": c["line"].encode("latin-1").decode("utf-8", "replace"), "write": c["ok"], "handoff": c["h"]}

    def signature(self, c, rec):
        return "%s|%s|%s" % (c.get("form"), c["line"], rec.get("ispec"))

    def shrink_candidates(self, c):
        if c.get("sessions"):
            return []
        line = c["line"]
        out = []
        if c.get("form"):
            # shrink fields one at a time
            for i, f in enumerate(c["fields"]):
                for cand in ([f[:len(f) // 2], f[len(f) // 2:], f[1:], f[:-1]] if len(f) > 1 else []):
                    fs = list(c["fields"])
                    fs[i] = cand
                    out.append(dict(c, fields=fs, line=G.build(c["form"], fs)))
            return out
        n = len(line)
        step = max(1, n // 2)
        while step >= 1:
            for i in range(0, n, step):
                out.append(dict(c, line=line[:i] + line[i + step:]))
            step //= 2
        return out

    def stats(self, cases, recs):
        forms, branches = {}, {}
        for c in cases:
            forms[c.get("form") or "malformed"] = forms.get(c.get("form") or "malformed", 0) + 1
            o = recs.get(c["id"], {}).get("impl") or ""
            key = "event" if ";W:" in ";" + o else "no-event"
            key += "+login" if ";S:" in o else ""
            key += "/" + (o.rsplit(";", 1)[-1] if o else "?")
            branches[key] = branches.get(key, 0) + 1
        return {"forms": forms, "branches": branches}

    def cases(self, tier, rng):
        n = 1 if tier == "quick" else 8
        p = self.prop
        if p == "C06":
            self.rule = "all 21 message forms x generated field values (sshd's formats); non-trivial = produced an event; distinct by (form, pid, line, faults)"
            ho = self._ho()
            dm = [dict(ho.gen(rng, "d", 6), form=None, fields=None, pid="", line="", ok="ok", h="ready") for _ in range(3 * n)]
            self.rule += "; plus %d runs of the daemon built from the working tree (every event must carry this node's name and machine id)" % len(dm)
            fr = [dict(c, framed=True) for c in self._c07()._prep(G.form_cases(rng, 1500 * n, adversarial_every=3), rng)]
            self.rule += "; plus %d messages framed '<pid> <msg>\\n' through SyslogIngester.Process (same event as the direct call)" % len(fr)
            return G.form_cases(rng, 6300 * n) + G.long_cases(rng, 18 * n) + dm + fr
        if p == "C17":
            self.rule = "invalid-user / failed-password / max-attempts forms with client-chosen names (spaces, ' from ', ' port ', embedded fragments) x addresses x ports"
            # in the running daemon the message reaches the processor through the syslog ingester, which must hand over the
            # very bytes sshd printed (an empty name, or one with runs of blanks, is two or more adjacent blanks in the line)
            fr = [dict(c, framed=True) for c in self._c07()._prep(G.form_cases(rng, 1500 * n, forms=G.C17_FORMS, adversarial_every=1), rng)]
            self.rule += "; plus %d such messages framed '<pid> <msg>\\n' through SyslogIngester.Process (same event as the direct call)" % len(fr)
            return G.form_cases(rng, 6000 * n, forms=G.C17_FORMS, adversarial_every=1) + G.form_cases(rng, 1500 * n, forms=G.C17_FORMS) + fr
        if p == "C05":
            self.rule = "accepted forms x PID tokens x {write ok, write fails} x {correlator ready, cancelled}; plus failure forms and malformed lines (must not forward)"
            return (G.form_cases(rng, 3000 * n, forms=G.ACCEPTED, oks=("ok", "ok", "fail"), hands=("ready", "cancel"), pids=G.PIDS_OK) +
                    G.form_cases(rng, 600 * n, forms=G.ACCEPTED, oks=("ok", "fail"), hands=("ready", "cancel"), pids=G.PIDS_ODD) +
                    G.form_cases(rng, 1000 * n, oks=("ok", "fail"), hands=("ready", "cancel")) + G.malformed_cases(rng, 1500 * n) +
                    G.accepted_with_suffix(rng, 600 * n) + G.splice_cases(rng, 600 * n) + G.long_cases(rng, 9 * n, oks=("ok", "fail"), hands=("ready", "cancel")) +
                    self._framed(G.form_cases(rng, 800 * n, forms=G.ACCEPTED, adversarial_every=2, pids=G.PIDS_OK), rng))
        if p == "C11":
            self.rule = "arbitrary bytes, keyword-prefixed junk, systematic mutations of valid messages, odd PID tokens; non-trivial = produced an event"
            cs = G.malformed_cases(rng, 8000 * n) + G.form_cases(rng, 1000 * n, pids=G.PIDS_ODD + G.PIDS_OK, adversarial_every=2) + G.accepted_with_suffix(rng, 600 * n)
            cs += [{"form": None, "fields": None, "pid": "1", "line": k + "A" * 20000, "ok": "ok", "h": "ready"} for k in G.KEYWORDS[:4]]
            cs += G.splice_cases(rng, 1200 * n) + G.long_cases(rng, 18 * n, oks=("ok", "fail"))
            cs += self._framed(G.malformed_cases(rng, 800 * n), rng)
            return cs
        if p == "C19":
            self.rule = "all forms and malformed lines; counters read from a private registry around each line"
            return (G.form_cases(rng, 4000 * n, oks=("ok", "ok", "fail"), pids=G.PIDS_OK + G.PIDS_ODD[:4]) + G.malformed_cases(rng, 4000 * n) +
                    G.accepted_with_suffix(rng, 600 * n) + G.splice_cases(rng, 600 * n) +
                    self._framed(G.form_cases(rng, 600 * n, adversarial_every=2, pids=G.PIDS_OK), rng))
        return []

    def extra_cases(self, rng, n):
        if self.prop in ("C06", "C17"):
            forms = G.C17_FORMS if self.prop == "C17" else None
            return G.form_cases(rng, n, forms=forms, adversarial_every=2)
        if self.prop == "C05":
            return G.form_cases(rng, n // 2, forms=G.ACCEPTED, oks=("ok", "fail"), hands=("ready", "cancel")) + G.malformed_cases(rng, n // 2)
        return G.malformed_cases(rng, n // 2) + G.form_cases(rng, n // 2, adversarial_every=2, oks=("ok", "fail"))


AUTYPES = ["LOGIN", "SYSCALL", "EXECVE", "USER_CMD", "CRED_DISP", "PROCTITLE", "PATH", "CWD", "USER_START", "USER_END", "USER_LOGOUT",
           "USER_ACCT", "CRED_ACQ", "SERVICE_START", "UNKNOWN[1234]", "BOGUS_TYPE", ""]
AUTAILS = ["", "", "", " ", "  ", "\t", "\r", " \t \r", "\x0b", "\x0c", "\xc2\xa0", "\xc2\x85", "\x00", " x", "\\n"]


def audit_line(r, long=0):
    """an auditd record line (no newline inside): mostly well-formed, some with odd spacing, a second 'msg=' inside the
    body (USER_* records carry msg='…'), trailing white space of every kind, bad headers, missing tokens"""
    t = r.choice(AUTYPES)
    sec, ms, seq = 1600000000 + r.below(10**8), r.below(1000), r.below(2**32)
    k = r.below(14)
    hdr = "audit(%d.%03d:%d):" % (sec, ms, seq)
    if k == 0:
        hdr = r.choice(["audit(%d.%03d:%d)" % (sec, ms, seq), "audit(%d:%d):" % (sec, seq), "audit(x.y:z):", "audit(1.2:99999999999):", "audit(", "", "audit(-1.5:7):"])
    body = " ".join("%s=%s" % (G.word(r, 1, 8, "abcdefghijklmnopqrstuvwxyz_"), r.choice([G.word(r, 1, 12), '"%s"' % G.word(r, 0, 10, G.NAMECH + " "), "?", "(none)"]))
                    for _ in range(r.below(12)))
    if r.below(4) == 0:
        body += " msg='op=PAM:session_open grantors=pam_unix acct=\"%s\" exe=\"/usr/sbin/sshd\" hostname=1.2.3.4 addr=1.2.3.4 terminal=ssh res=success'" % G.word(r, 1, 8)
    if long:
        body += " proctitle=" + G.word(r, long, long, "0123456789ABCDEF")
    lead = r.choice(["", "", "", " ", "  ", "\t"])
    line = "type=%s msg=%s%s%s%s" % (t, lead, hdr, " " if body else "", body)
    if k == 1:
        line = line.replace(" msg=", r.choice(["  msg=", " ", " MSG=", "msg="]), 1)
    elif k == 2:
        line = r.choice(["msg=" + hdr, "t msg=" + hdr + " a=b", "type=msg=" + hdr, "node=h1 type=%s msg=%s %s" % (t, hdr, body), " " + line])
    elif k == 3:
        line = G.random_bytes(r, r.below(60)).replace("\n", " ")
    return line + r.choice(AUTAILS)


class C07Family(SshdFamily):
    """direct call vs. the same record framed through the syslog ingester"""
    harness_mode = ["c07"]

    def __init__(self):
        self.prop = "C07"
        self.driver_args = ["c07"]
        self.uses_gen = ("RE", "ProcessEntry", "userTypeLogAuditFn", "templates")

    def modes_for(self, c):
        if c.get("au"):
            return (["auline"], ["auline"])
        if c.get("fifo"):
            return (["c07fifo"], ["c07fifo"])
        return (self.harness_mode, self.driver_args)

    def harness_line(self, c):
        if c.get("au"):
            return "%s %s" % (c["id"], ",".join(hx(l) for l in c["au"]))
        if c.get("fifo"):
            f = c["fifo"]
            return "%s %s %s pauses=%s" % (c["id"], f["ok"], ",".join(hx(x) for x in f["chunks"]), ",".join(str(p) for p in f["pauses"]))
        return "%s %s %s %s %s %s" % (c["id"], hx(c["pid"]), hx(c["pad"]), hx(c["line"]), c["ok"], c["h"])

    def driver_line(self, c, impl_obs):
        s = self.harness_line(c)
        if impl_obs is not None:
            if c.get("fifo") or c.get("au"):
                return s + " obs=" + impl_obs
            parts = impl_obs.split(" ")
            if len(parts) == 2:
                s += " obs=%s dobs=%s" % (parts[0], parts[1])
        return s

    def impl_obs_for(self, c, raw):
        if c.get("au"):
            return ",".join(t.split("~")[0] for t in raw.split(","))      # the direct parse; the other two are judged by the driver
        return raw if c.get("fifo") else raw.split(" ")[0]

    def sample(self, c):
        if c.get("au"):
            return {"audit_record_lines": [l.encode("latin-1").decode("utf-8", "replace")[:200] for l in c["au"][:3]], "count": len(c["au"])}
        if c.get("fifo"):
            f = c["fifo"]
            return {"through_real_fifo": True, "records": f["n"], "writes": len(f["chunks"]), "longest_pause_us": max(f["pauses"] or [0]), "write": f["ok"],
                    "stream": "".join(f["chunks"]).encode("latin-1").decode("utf-8", "replace")[:300]}
        d = SshdFamily.sample(self, c)
        d["padding"] = len(c["pad"])
        return d

    def shrink_candidates(self, c):
        if c.get("au"):
            return [dict(c, au=c["au"][:i] + c["au"][i + 1:]) for i in range(len(c["au"])) if len(c["au"]) > 1]
        if c.get("fifo"):
            return []
        return [dict(x, pad=c["pad"]) for x in SshdFamily.shrink_candidates(self, c)]

    def fifo_case(self, rng, recs, slow_us=0):
        """records framed '<pid><pad><msg>\\n', concatenated and written to a real FIFO in arbitrary pieces
        (splits inside records), optionally with one long stall of the writer in the middle of a record"""
        stream = "".join(r["pid"] + r["pad"] + r["line"] + "\n" for r in recs)
        cuts = sorted({rng.below(len(stream) + 1) for _ in range(rng.below(6))} - {0, len(stream)})
        chunks = [stream[a:b] for a, b in zip([0] + cuts, cuts + [len(stream)])]
        pauses = [rng.choice([0, 0, 50, 300, 2000]) for _ in chunks]
        if slow_us and len(chunks) > 1:
            pauses[1 + rng.below(len(chunks) - 1)] = slow_us
        elif slow_us:
            mid = len(stream) // 2
            chunks, pauses = [stream[:mid], stream[mid:]], [0, slow_us]
        return {"fifo": {"chunks": chunks, "pauses": pauses, "ok": "ok" if rng.below(6) else "fail", "n": len(recs)},
                "pid": "", "pad": "", "line": "", "ok": "ok", "h": "ready", "form": None, "fields": None}

    def _prep(self, cs, rng):
        out = []
        for c in cs:
            if " " in c["pid"] or "\n" in c["pid"] or c["line"].startswith(" ") or "\n" in c["line"]:
                continue
            c["pad"] = " " * (1 + (rng.below(3) if rng.below(4) == 0 else 0))
            out.append(c)
        return out

    def cases(self, tier, rng):
        n = 1 if tier == "quick" else 8
        self.rule = "every message form and malformed line, once directly and once framed '<pid><pad><msg>\\n' through SyslogIngester.Process; non-trivial = the direct call produced an event"
        cs = G.form_cases(rng, 5000 * n, adversarial_every=3, oks=("ok", "ok", "fail"), hands=("ready", "ready", "cancel"), pids=G.PIDS_OK + ["0", "-5", "abc"])
        cs += G.malformed_cases(rng, 2000 * n)
        cs = self._prep(cs, rng)
        # the same records delivered through a real FIFO to SyslogIngester.Ingest, in arbitrary pieces
        pool = [c for c in cs if "\r" not in c["line"]]
        fifo = []
        for i in range(300 * n):
            k = 1 + rng.below(6)
            fifo.append(self.fifo_case(rng, [rng.choice(pool) for _ in range(k)]))
        longs = self._prep(G.long_cases(rng, 18 * n, oks=("ok",)), rng)
        cs += longs
        for i in range(12 * n):
            k = rng.below(3)
            fifo.append(self.fifo_case(rng, [rng.choice(pool) for _ in range(k)] + [rng.choice(longs)] + [rng.choice(pool + longs) for _ in range(rng.below(3))]))
        for slow in ([600000, 1200000] if tier == "quick" else [300000, 600000, 1200000, 2500000] * 2):
            fifo.append(self.fifo_case(rng, [rng.choice(pool) for _ in range(2)], slow_us=slow))
        self.rule += "; plus 1-6 framed records written to a real FIFO in arbitrary pieces (splits inside records, pauses), incl. records of 4-12 kB (beyond the ingester's read buffer) and a writer that stalls 0.6-2.5 s in the middle of a record, read by SyslogIngester.Ingest"
        # the audit side: record lines parsed directly, with their terminator, and after the FIFO + audit log ingester
        au = []
        for i in range(150 * n):
            au.append({"au": [audit_line(rng) for _ in range(1 + rng.below(8))], "pid": "", "pad": "", "line": "", "ok": "ok", "h": "ready", "form": None, "fields": None})
        for i in range(6 * n):
            au.append({"au": [audit_line(rng, long=rng.choice([4000, 4090, 8100, 12000])) for _ in range(1 + rng.below(3))] + [audit_line(rng)],
                       "pid": "", "pad": "", "line": "", "ok": "ok", "h": "ready", "form": None, "fields": None})
        self.rule += "; plus %d batches of auditd record lines (odd spacing, a second msg= inside, every kind of trailing white space, 4-12 kB records) parsed directly, with terminator, and through FIFO + AuditLogIngester" % len(au)
        return cs + fifo + au

    def extra_cases(self, rng, n):
        return self._prep(G.form_cases(rng, n, adversarial_every=2) , rng)
