"""C13 (each worker cancelled in each blocking state) and C08 (failure causes injected into the built
daemon, idle and under sustained audit load)."""
from .run import Family


class WorkersFamily(Family):
    prop = "C13"
    harness_mode = ["workers"]
    driver_args = ["workers"]
    uses_gen = ("namedpipe", "auditlog", "syslog", "sshdprocessor", "auditd.go", "function")
    trusted = ["blocking facts read off the source by tools/extract (select arms, Go routines closing the file / racing the open, joins, return nil) and the meaning the automata give them",
               "closing an os.File on a FIFO unblocks a pending Read; select takes a ready ctx.Done() arm within a bounded number of iterations; one step takes bounded time (runtime assumptions, exercised here)",
               "real FIFOs (mkfifo), real channels of the stated capacities"]
    assumptions = ["bounded time = return within 4 s of the cancellation (measured ~100 us); deliveries are watched for 60 ms after the return",
                   "observation R:<returned>:<late deliveries>:<non-nil error>:<was blocked when cancelled>"]
    rule = "each worker (audit pipe ingester, sshd pipe ingester, audit processor) in each blocking state (waiting for a writer, reading an idle pipe, reading an idle pipe after a consumer stall of 1.3 s or a burst of 400 records, handing downstream with the buffer empty / partly filled / full and no consumer, unready correlator, processor idle / busy on a long queue), capacities 0,1,4 (thorough: up to 10000), repeated; every case is non-trivial"

    def harness_line(self, c):
        return "%s %s %s %d %d" % (c["id"], c["worker"], c["state"], c["cap"], c["fill"])

    def driver_line(self, c, impl_obs):
        # whatever happened before, a worker whose pipe has gone idle is in the model's state "reading"
        s = self.harness_line(c).replace(" afterstall ", " reading ").replace(" afterburst ", " reading ")
        if impl_obs is not None:
            s += " obs=" + impl_obs
        return s

    def sample(self, c):
        return {k: c[k] for k in ("worker", "state", "cap", "fill", "rep")}

    def signature(self, c, rec):
        return "%s/%s/%s" % (c["worker"], c["state"], rec.get("ispec"))

    def stats(self, cases, recs):
        d = {"by_state": {}, "observations": {}}
        for c in cases:
            k = c["worker"] + "/" + c["state"]
            d["by_state"][k] = d["by_state"].get(k, 0) + 1
            o = recs.get(c["id"], {}).get("impl") or "?"
            d["observations"][o] = d["observations"].get(o, 0) + 1
        return d

    def cases(self, tier, rng):
        quick = tier == "quick"
        reps = 2 if quick else 10
        caps = [0, 1, 4] if quick else [0, 1, 4, 16, 100, 10000]
        cs = []
        for rep in range(reps):
            for w in ("audit", "sshd"):
                cs.append(dict(worker=w, state="opening", cap=0, fill=0, rep=rep))
                cs.append(dict(worker=w, state="precancelled", cap=0, fill=0, rep=rep))
                cs.append(dict(worker=w, state="reading", cap=0, fill=0, rep=rep))
            for cap in caps:
                for fill in sorted({0, cap // 2, cap}):
                    cs.append(dict(worker="audit", state="handing", cap=cap, fill=fill, rep=rep))
                    cs.append(dict(worker="audit", state="reading", cap=cap, fill=fill, rep=rep))
            cs.append(dict(worker="sshd", state="handing", cap=0, fill=0, rep=rep))
            if rep == 0 or not quick:
                # the idle read reached through a history: a consumer that stalled for 1.3 s and then caught up; a burst
                for w in ("audit", "sshd"):
                    cs.append(dict(worker=w, state="afterstall", cap=1 if w == "audit" else 0, fill=0, rep=rep))
                    cs.append(dict(worker=w, state="afterburst", cap=4 if w == "audit" else 0, fill=0, rep=rep))
            cs.append(dict(worker="proc", state="idle", cap=0, fill=0, rep=rep))
            cs.append(dict(worker="proc", state="busy", cap=0, fill=60000, rep=rep))
            cs.append(dict(worker="proc", state="busy", cap=0, fill=200000, rep=rep))
        return cs

    def extra_cases(self, rng, n):
        return self.cases("thorough", rng)[:150]


CAUSES = ["eof-sshd", "eof-audit", "badline", "writeerr", "writeerr-audit", "sigterm", "sigint", "notfifo-sshd", "notfifo-audit"]


class DaemonFamily(Family):
    prop = "C08"
    harness_mode = ["daemon"]
    driver_args = ["daemon"]
    uses_gen = ("namedpipe", "auditlog", "syslog", "sshdprocessor", "auditd.go", "function", "main.go")
    trusted = WorkersFamily.trusted + ["process exit, signal delivery and wall-clock time are outside the model; observed on the daemon built from the working tree"]
    assumptions = ["bounded time = exit within 8 s of the fault; load = a writer streaming audit records into the audit pipe as fast as the pipe takes them (the 10000-line buffer fills because the processor is slower than the ingester)",
                   "observation X:<exited>:<non-zero status>"]
    rule = "every failure cause (sshd pipe EOF, audit pipe EOF, unparsable audit line, event write failure on the sshd side (/dev/full) and on the audit side (output reader gone, correlated session), SIGTERM, SIGINT, sshd path not a FIFO, audit path not a FIFO) at idle and under sustained audit load, on the built binary; every case is non-trivial"

    def harness_line(self, c):
        return "%s %s %d" % (c["id"], c["cause"], c["load"])

    def driver_line(self, c, impl_obs):
        s = self.harness_line(c)
        if impl_obs is not None:
            s += " obs=" + impl_obs
        return s

    def sample(self, c):
        return {k: c[k] for k in ("cause", "load", "rep")}

    def signature(self, c, rec):
        return "%s/%s/%s" % (c["cause"], c["load"], rec.get("ispec"))

    def stats(self, cases, recs):
        d = {"by_cause": {}, "observations": {}}
        for c in cases:
            k = "%s/%s" % (c["cause"], "load" if c["load"] else "idle")
            d["by_cause"][k] = d["by_cause"].get(k, 0) + 1
            o = recs.get(c["id"], {}).get("impl") or "?"
            d["observations"][o] = d["observations"].get(o, 0) + 1
        return d

    def cases(self, tier, rng):
        reps = 1 if tier == "quick" else 8
        cs = []
        for rep in range(reps):
            for cause in CAUSES:
                for load in (0, 1):
                    if cause == "notfifo-audit" and load:
                        continue
                    cs.append(dict(cause=cause, load=load, rep=rep))
            # a burst of events released together (behind an event that times out) while the output is gone
            cs.append(dict(cause="writeerr-audit-burst", load=0, rep=rep))
        return cs

    def extra_cases(self, rng, n):
        return self.cases("thorough", rng)[:60]
