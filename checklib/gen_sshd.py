"""Generators for the sshd family (C05 C06 C07 C11 C17 C19): structured, mostly valid messages built
from the field grammar the theorems quantify over, plus a separate malformed stream."""
from .core import Rng, hx

KEYTYPES = ["RSA", "DSA", "ECDSA", "ED25519", "ECDSA-SK", "ED25519-SK", "RSA-CERT", "DSA-CERT",
            "ECDSA-CERT", "ED25519-CERT", "ECDSA-SK-CERT", "ED25519-SK-CERT", "XMSS", "XMSS-CERT"]
B64 = "ABCDEFGHIJKLMNOPQRSTUVWXYZabcdefghijklmnopqrstuvwxyz0123456789+/"
NAMECH = "abcdefghijklmnopqrstuvwxyzABCDEFGHIJKLMNOPQRSTUVWXYZ0123456789_.@-$"

FORMS = {
    "acceptedKey": ["u", "a", "p", "v", "kt", "h", "sum"],
    "acceptedCert": ["u", "a", "p", "v", "kt", "h", "sum", "k", "n", "ct", "cf"],
    "acceptedPassword": ["u", "a", "p", "v"],
    "certInvalid": ["r"],
    "invalidUser": ["u", "a", "p"],
    "notInAllowUsers": ["u", "a"],
    "nonExistentShell": ["u", "sh"],
    "nonExecShell": ["u", "sh"],
    "inDenyUsers": ["u", "a"],
    "notInAnyGroup": ["u", "a"],
    "groupInDenyGroups": ["u", "a"],
    "groupNotInAllowGroups": ["u", "a"],
    "rootLoginRefused": ["a", "p"],
    "badOwner": ["u", "f"],
    "nastyPTR": ["d", "a"],
    "reverseMapping": ["d", "a"],
    "doesNotMapBack": ["a", "d"],
    "maxAuth": ["u", "a", "p", "v"],
    "revokedByFile": ["kt", "fp", "f"],
    "revokedErr": ["kt", "fp", "f"],
    "failedPassword": ["u", "a", "p", "v"],
}

TEMPLATES = {
    "acceptedKey": "Accepted publickey for {u} from {a} port {p} ssh{v}: {kt} {h}:{sum}",
    "acceptedCert": "Accepted publickey for {u} from {a} port {p} ssh{v}: {kt} {h}:{sum} ID {k} (serial {n}) CA {ct} {cf}",
    "acceptedPassword": "Accepted password for {u} from {a} port {p} ssh{v}",
    "certInvalid": "Certificate invalid: {r}",
    "invalidUser": "Invalid user {u} from {a} port {p}",
    "notInAllowUsers": "User {u} from {a} not allowed because not listed in AllowUsers",
    "nonExistentShell": "User {u} not allowed because shell {sh} does not exist",
    "nonExecShell": "User {u} not allowed because shell {sh} is not executable",
    "inDenyUsers": "User {u} from {a} not allowed because listed in DenyUsers",
    "notInAnyGroup": "User {u} from {a} not allowed because not in any group",
    "groupInDenyGroups": "User {u} from {a} not allowed because a group is listed in DenyGroups",
    "groupNotInAllowGroups": "User {u} from {a} not allowed because none of user's groups are listed in AllowGroups",
    "rootLoginRefused": "ROOT LOGIN REFUSED FROM {a} port {p}",
    "badOwner": "Authentication refused for {u}: bad owner or modes for {f}",
    "nastyPTR": "Nasty PTR record \"{d}\" is set up for {a}, ignoring",
    "reverseMapping": "reverse mapping checking getaddrinfo for {d} [{a}] failed.",
    "doesNotMapBack": "Address {a} maps to {d}, but this does not map back to the address.",
    "maxAuth": "maximum authentication attempts exceeded for {u} from {a} port {p} ssh{v}",
    "revokedByFile": "Authentication key {kt} {fp} revoked by file {f}",
    "revokedErr": "Error checking authentication key {kt} {fp} in revoked keys file {f}",
    "failedPassword": "Failed password for {u} from {a} port {p} ssh{v}",
}
ACCEPTED = ("acceptedKey", "acceptedCert", "acceptedPassword")
C17_FORMS = ("invalidUser", "failedPassword", "maxAuth")


def build(form, fields):
    """the line sshd prints (bytes), from latin-1 field strings"""
    t = TEMPLATES[form]
    out = t
    for name, val in zip(FORMS[form], fields):
        out = out.replace("{" + name + "}", "\x00" + name + "\x00")
    for name, val in zip(FORMS[form], fields):
        out = out.replace("\x00" + name + "\x00", val)
    return out


def word(r, lo=1, hi=12, alphabet=NAMECH):
    return "".join(r.choice(alphabet) for _ in range(lo + r.below(hi - lo + 1)))


def account(r):
    k = r.below(10)
    if k < 5:
        return word(r, 1, 16)
    if k == 5:
        return word(r, 1, 8) + "$"
    if k == 6:
        return "joséü".encode("utf-8").decode("latin-1") + word(r, 0, 4)
    if k == 7:
        return "日本語".encode("utf-8").decode("latin-1")
    if k == 8:
        return word(r, 1, 6) + "@" + word(r, 1, 6) + ".example.com"
    return word(r, 1, 100)


def addr(r):
    k = r.below(8)
    if k < 3:
        return ".".join(str(r.below(256)) for _ in range(4))
    if k == 3:
        if r.below(3) == 0:
            # spellings inet_ntop would not produce but a peer name / proxy / older sshd may: upper case, zero padding,
            # zero groups written out — whatever is in the line is what the event must carry
            return r.choice(["2001:DB8::%X" % (1 + r.below(65535)), "2001:0db8::%04x" % r.below(65536), "2001:db8:0:0:0:0:0:%x" % (1 + r.below(65535)),
                             "FE80::A", "0:0:0:0:0:0:0:1", "2001:db8:0000:0000:0000:0000:0000:%04x" % r.below(65536)])
        return ":".join("%x" % r.below(65536) for _ in range(8))
    if k == 4:
        return "fe80::" + "%x" % r.below(65536) + "%" + r.choice(["eth0", "ens3", "wlan0", "2"])
    if k == 5:
        return "::ffff:" + ".".join(str(r.below(256)) for _ in range(4))
    if k == 6:
        return word(r, 1, 10, "abcdefghijklmnopqrstuvwxyz0123456789-") + "." + r.choice(["example.com", "corp", "local"])
    return "::1"


def port(r):
    k = r.below(6)
    if k == 0:
        return r.choice(["0", "22", "65535", "1", "1024"])
    return str(r.below(65536))


def ver(r):
    return r.choice(["2", "2", "2", "2", "1", "2x", "22"])


def fingerprint(r):
    if r.chance(3, 4):
        return "SHA256", "".join(r.choice(B64) for _ in range(43))
    return "MD5", ":".join("%02x" % r.below(256) for _ in range(16))


def keyid(r, adversarial=False):
    k = r.below(10)
    if k < 3:
        return word(r, 1, 12) + "@" + word(r, 1, 8) + ".com"
    if k == 3:
        return "user " + word(r) + " (laptop)"
    if k == 4:
        return "serial " + str(r.below(1000)) + " of " + word(r)
    if k == 5:
        return word(r) + " (serial " + str(r.below(100)) + ") backup"
    if k == 6:
        return word(r) + " from " + word(r)
    if k == 7:
        return r.choice(["ID " + word(r) + " CA", word(r) + "  " + word(r), word(r) + "\t" + word(r)])
    if k == 8 and adversarial:
        return word(r) + " from 6.6.6.6 port 1 ssh2: RSA SHA256:xx"
    return word(r, 1, 30, NAMECH + "  ()")


def serial(r):
    k = r.below(5)
    if k == 0:
        return r.choice(["0", "18446744073709551615", "9223372036854775808", "9223372036854775807"])
    if k == 1:
        return str(r.next())
    return str(r.below(100000))


def path(r):
    k = r.below(5)
    base = "/" + "/".join(word(r, 1, 8) for _ in range(1 + r.below(4)))
    if k == 0:
        return base + "/my keys/authorized keys"
    if k == 1:
        return "/home/" + word(r) + "/.ssh/authorized_keys"
    if k == 2:
        return r.choice(["/etc/ssh/revoked keys (old)", "/etc/ssh/revoked  keys", "/srv/home/alice  old/.ssh/authorized_keys", "/a\tb/c"])
    return base


def shell(r):
    return r.choice(["/bin/bash", "/usr/bin/zsh", "/sbin/nologin", "/opt/my shell/sh", "/bin/false", "/usr/local/bin/fish -l", "/opt/my  shell/sh  -l"])


def dnsname(r):
    k = r.below(5)
    if k == 0:
        return word(r, 1, 8) + " " + word(r, 1, 8)
    if k == 1:
        return "evil\"quote." + word(r)
    return word(r, 1, 12, "abcdefghijklmnopqrstuvwxyz0123456789-") + "." + r.choice(["example.com", "net", "attacker.test"])


def reason(r):
    return r.choice(["expired", "not yet valid", "name is not a listed principal", "Certificate lacks principal list",
                     "unknown critical option \"foo\"", "", " ", word(r, 1, 40, NAMECH + " :,")])


KEYWORDS_EARLY = ["Accepted publickey", "Accepted password", "Certificate invalid", "Invalid user", "User ", "Failed password for ",
                  "maximum authentication attempts exceeded for "]


def evil_name(r):
    """client-chosen names for C17: spaces, ' from ', ' port ', embedded well-formed fragments"""
    a = ".".join(str(r.below(256)) for _ in range(4))
    k = r.below(20)
    if k >= 18:
        # a name of up to 100 bytes outside ASCII is logged vis-encoded, four characters per byte: up to 400 characters
        n = 30 + r.below(71)
        enc = "".join(r.choice(["\\303\\251", "\\343\\201\\202"[:8], "\\377"]) for _ in range(n))[:4 * n]
        return enc if k == 18 else ("x from 6.6.6.6 port 1 " + enc)[:400]
    if k == 16:
        # tokens sshd itself appends or prepends to such lines
        return r.choice(["x from 6.6.6.6 port 6 ssh2 [preauth]", "x [preauth] y", " [preauth]", "error: x", "x [preauth]",
                         "bob from %s port 1 [preauth] z" % a, "[preauth] from %s port 2" % a])
    if k == 17:
        return r.choice(["x\ty", "x  y", "x\u00a0y".encode("utf-8").decode("latin-1"), "\x7f", "a\rb"])
    if k == 12:
        # the name embeds (the start of) another sshd message, complete with its own address and port
        return r.choice(["Accepted password for root from %s port 22 ssh2", "bob Accepted password for root from %s port 22 ssh2",
                         "Accepted publickey for root from %s port 22 ssh2: ED25519 SHA256:abc", "Accepted password for x",
                         "Invalid user y from %s port 1", "Failed password for z from %s port 2 ssh2",
                         "x Certificate invalid: expired", "ROOT LOGIN REFUSED FROM %s port 9"]).replace("%s", a)
    if k == 13:
        return r.choice(KEYWORDS_EARLY) + word(r, 0, 10)
    if k == 14:
        # as long as sshd lets a name be (100 bytes), with and without an embedded fragment
        n = 80 + r.below(21)
        return ("x" * n) if r.below(2) else ("y" * (n - 30) + " from 10.6.6.6 port 1 " + "z" * 30)[:100]
    if k == 15:
        return word(r, 88, 100)
    if k == 0:
        return "foo bar"
    if k == 1:
        return "x from %s port %d" % (a, r.below(65536))
    if k == 2:
        return "x from %s port %d ssh2" % (a, r.below(65536))
    if k == 3:
        return " from  port "
    if k == 4:
        return "invalid user " + word(r)
    if k == 5:
        return ""
    if k == 6:
        return " "
    if k == 7:
        return "a from b port 1 from c port 2 from d port 3"
    if k == 8:
        return "".join(r.choice([chr(c) for c in range(32, 127)]) for _ in range(1 + r.below(100)))
    if k == 9:
        return "root from %s port 22 ssh2\tx" % a
    if k == 10:
        return "port from port from"
    return word(r, 1, 20) + " " + word(r, 1, 20)


# words that occur as literals in the expressions: a field value that merely begins or ends with one of them
# (an account called "svcDeployID", a fingerprint ending in "...ID") must not move any field boundary
LITERAL_WORDS = ["ID", "CA", "serial", "from", "port", "ssh2", "ssh", "for", "user", "invalid", "Accepted", "publickey",
                 "password", "not", "allowed", "because", "shell", "by", "file", "revoked", "in", "maps", "to", "is", "failed"]
SPICED = {"u", "sum", "cf", "d", "f", "sh", "k"}


def spice(r, name, val):
    if name not in SPICED or val is None or not r.chance(1, 10):
        return val
    if name in ("sum", "cf") and ":" in val[7:]:
        return val          # MD5 fingerprints are hex digits and colons only
    w = r.choice(LITERAL_WORDS)
    if name in ("sum", "cf"):
        w = r.choice(["ID", "CA", "ssh2", "from", "port", "serial"])
        return val + w
    return val + w if r.below(3) else w + val


def fields_for(r, form, adversarial=False):
    fs = _fields_for(r, form, adversarial)
    return [spice(r, n, v) for n, v in zip(FORMS[form], fs)]


def _fields_for(r, form, adversarial=False):
    out = []
    for name in FORMS[form]:
        if name == "u":
            if adversarial and form in C17_FORMS + ("acceptedPassword",):
                out.append(evil_name(r))
            elif form in ("failedPassword", "maxAuth") and r.chance(1, 4):
                out.append("invalid user " + account(r))
            else:
                out.append(account(r))
        elif name == "a":
            out.append(addr(r))
        elif name == "p":
            out.append(port(r))
        elif name == "v":
            out.append(ver(r))
        elif name in ("kt", "ct"):
            out.append(r.choice(KEYTYPES))
        elif name == "h":
            out.append(None)
        elif name == "sum":
            h, s = fingerprint(r)
            out[-1] = h
            out.append(s)
        elif name == "fp":
            h, s = fingerprint(r)
            out.append(h + ":" + s)
        elif name == "cf":
            h, s = fingerprint(r)
            out.append(h + ":" + s)
        elif name == "k":
            out.append(keyid(r, adversarial))
        elif name == "n":
            out.append(serial(r))
        elif name == "sh":
            out.append(shell(r))
        elif name == "f":
            out.append(path(r))
        elif name == "d":
            out.append(dnsname(r))
        elif name == "r":
            out.append(reason(r))
    return out


PIDS_OK = ["1", "123", "4321", "99999", "4194304", "007", "+7", "2147483647", "9223372036854775807"]
PIDS_ODD = ["", "0", "-5", "abc", "12a", "9223372036854775808", " 1", "1e3", "0x10", "١٢٣".encode("utf-8").decode("latin-1"), "-0", "+", "-"]


def form_cases(r, n, forms=None, adversarial_every=0, oks=("ok",), hands=("ready",), pids=None):
    """n cases over the given forms; returns dicts {form, fields, pid, line, ok, h}"""
    forms = list(forms or FORMS.keys())
    out = []
    for i in range(n):
        form = forms[i % len(forms)]
        adv = adversarial_every and (i // len(forms)) % adversarial_every == 0
        fs = fields_for(r, form, adversarial=bool(adv))
        pid = r.choice(pids or PIDS_OK)
        out.append({"form": form, "fields": fs, "pid": pid, "line": build(form, fs),
                    "ok": r.choice(list(oks)), "h": r.choice(list(hands))})
        if r.below(12) == 0:
            # sshd repeats itself (another failed attempt, the same certificate offered again): the very
            # same record once more, right away
            out.append(dict(out[-1]))
    return out


def mutate(r, line):
    """systematic mutations of a valid message"""
    k = r.below(9)
    toks = line.split(" ")
    if k == 0 and len(toks) > 1:
        return " ".join(toks[:1 + r.below(len(toks) - 1)])
    if k == 1:
        return line[:r.below(len(line) + 1)]
    if k == 2:
        return r.choice(["accepted", "ACCEPTED", "Failed", "Postponed", "Partial", "x", ""]) + line[line.find(" "):] if " " in line else line
    if k == 3 and len(toks) > 2:
        i = r.below(len(toks))
        return " ".join(toks[:i] + toks[i:i + 2] + toks[i:])
    if k == 4:
        return r.choice(["sshd[1]: ", " ", "error: ", "x", "\t"]) + line
    if k == 5:
        return line + r.choice([" ", "\n", " trailing", "\r", ", method info", "\x00"])
    if k == 6:
        i = r.below(len(line) + 1)
        return line[:i] + r.choice(["\xff", "\xe2\x82", "\x00", "\"", "\\", "\n", "\xc3\xa9", "\xf0\x9f\x98\x80", "\xed\xa0\x80"]) + line[i:]
    if k == 7 and len(toks) > 1:
        i = r.below(len(toks))
        return " ".join(toks[:i] + toks[i + 1:])
    return line.replace(" ", "  ", 1 + r.below(3))


def random_bytes(r, n):
    return "".join(chr(r.below(256)) for _ in range(n))


KEYWORDS = ["Accepted publickey", "Accepted password", "Certificate invalid", "Invalid user", "User ",
            "ROOT LOGIN REFUSED FROM ", "Authentication refused for ", "Nasty PTR record \"",
            "reverse mapping checking getaddrinfo for ", "Address ", "maximum authentication attempts exceeded for ",
            "Authentication key ", "Error checking authentication key ", "Failed password for "]


def malformed_cases(r, n):
    """arbitrary byte strings, keyword-prefixed junk, mutated valid messages, odd PID tokens"""
    out = []
    for i in range(n):
        k = i % 8
        if k == 0:
            line = random_bytes(r, r.below(120))
        elif k == 1:
            line = r.choice(KEYWORDS) + random_bytes(r, r.below(80))
        elif k == 2:
            line = r.choice(KEYWORDS)[:r.below(20)] + word(r, 0, 30, NAMECH + "   ")
        elif k == 3:
            line = splice_cases(r, 1)[0]["line"]
        else:
            form = r.choice(list(FORMS.keys()))
            line = mutate(r, build(form, fields_for(r, form, adversarial=r.chance(1, 3))))
            if r.chance(1, 4):
                line = mutate(r, line)
        pid = r.choice(PIDS_ODD) if r.chance(1, 3) else r.choice(PIDS_OK)
        out.append({"form": None, "fields": None, "pid": pid, "line": line, "ok": r.choice(["ok", "ok", "ok", "fail"]),
                    "h": r.choice(["ready", "ready", "cancel"])})
    return out


LONG_OK = {"u", "k", "f", "sh", "d", "r", "sum", "fp", "cf"}
LONGCH = "abcdefghijklmnopqrstuvwxyz0123456789"


def long_cases(r, n, oks=("ok",), hands=("ready",)):
    """messages with one field of 4-12 kB (beyond one and two bufio buffers): long certificate key ids, reasons, paths,
    names; the filler is random so that a record whose bytes get mixed up cannot look right"""
    out = []
    forms = [f for f in FORMS if any(x in LONG_OK for x in FORMS[f])]
    for i in range(n):
        form = forms[i % len(forms)]
        fs = fields_for(r, form)
        idx = [j for j, x in enumerate(FORMS[form]) if x in LONG_OK]
        j = r.choice(idx)
        L = r.choice([4000 + r.below(200), 4090 + r.below(12), 8100 + r.below(200), 5000 + r.below(3000), 12000 + r.below(500)])
        fs[j] = fs[j] + word(r, L, L, LONGCH)
        out.append({"form": form, "fields": fs, "pid": r.choice(PIDS_OK), "line": build(form, fs), "ok": r.choice(list(oks)), "h": r.choice(list(hands)), "long": True})
    return out


def splice_cases(r, n):
    """a line that begins with the keyword of one message (cut short, or followed by a little junk) and goes on with a
    complete message of another (or the same) form, ending exactly there or with a little more text"""
    out = []
    forms = list(FORMS.keys())
    for i in range(n):
        head = r.choice(KEYWORDS)
        k = r.below(5)
        if k == 0:
            head = head[:1 + r.below(len(head))]
        elif k == 1:
            head = head + " " + word(r, 0, 6)
        elif k == 2:
            head = head + r.choice([":", " for", " for ", " from ", "  ", " x y "])
        form = forms[(i // 2) % len(forms)] if i % 3 else r.choice(ACCEPTED)
        body = build(form, fields_for(r, form))
        tail = "" if r.below(3) else r.choice([" ", " x", ": y", " ID z (serial 1) CA RSA SHA256:q", "\n"])
        sep = r.choice(["", " ", " ", ": "])
        out.append({"form": None, "fields": None, "pid": r.choice(PIDS_OK + PIDS_ODD[:3]), "line": head + sep + body + tail,
                    "ok": r.choice(["ok", "ok", "fail"]), "h": r.choice(["ready", "ready", "cancel"])})
    return out


SUFFIXES = [", method info", " ID", " ID ", " ID bob", " ID bob (serial", " ID bob (serial 12) CA", " ID bob (serial x) CA ED25519 SHA256:abc",
            " trailing", "  ", " x", " ID  (serial 1) CA RSA SHA256:x", ": extra", " ID a b c (serial 99999999999999999999) CA ED25519 SHA256:z"]


def accepted_with_suffix(r, n):
    """accepted public-key / password lines followed by text that is not (quite) a certificate identifier:
    the branches between 'plain key' and 'key with CA'; with every write / hand-off outcome"""
    out = []
    for i in range(n):
        form = ("acceptedKey", "acceptedKey", "acceptedPassword")[i % 3]
        line = build(form, fields_for(r, form)) + r.choice(SUFFIXES)
        if r.chance(1, 5):
            line = mutate(r, line)
        out.append({"form": None, "fields": None, "pid": r.choice(PIDS_OK + PIDS_ODD[:3]), "line": line,
                    "ok": r.choice(["ok", "fail"]), "h": r.choice(["ready", "ready", "cancel"])})
    return out


def case_line(cid, c, with_form=True):
    """protocol line for harness (first five fields) and driver (plus form=)"""
    s = "%s %s %s %s %s" % (cid, hx(c["pid"]), hx(c["line"]), c["ok"], c["h"])
    if with_form and c.get("form"):
        s += " form=%s:%s" % (c["form"], ",".join(hx(f) for f in c["fields"]))
    return s
