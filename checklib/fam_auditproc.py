"""C15: the audit processor (Auditd.Read: parser, go-libaudit reassembler, callback, error hand-off,
correlator) driven through its exported surface on generated audit streams."""
from .run import Family
from .core import hx

BAD_LINES = [
    b"garbage", b"type=SYSCALL", b"msg=audit(1600000001.000:1): a=1", b"type=FOO msg=audit(1600000001.000:2): a=1",
    b"type=SYSCALL msg=audit(abc.000:2): a=1", b"type=SYSCALL msg=audit(1600000001.000:x): a=1",
    b"type=SYSCALL msg=audit(1600000001:3): a=1", b"type=SYSCALL msg=audit 1600000001.000:3 a=1",
    b" ", b"\x00\xff", b"type=UNKNOWN[x] msg=audit(1600000001.000:4): a=1", b"type=LOGIN msg=audit(1600000001.000:99999999999): pid=1",
]


def source_literal_lines():
    """unparsable lines built from the string literals of the audit processor's own source in the tree under check
    (a special case for some token in a line shows up as a literal there): the literal alone, with a suffix, with a
    suffix and a second word. None of them is an audit record, so each must stop the processor with an error."""
    import os, re
    from . import core
    lits = []
    d = os.path.join(core.REPO, "processors", "auditd")
    for f in sorted(os.listdir(d)):
        if f.endswith(".go") and not f.endswith("_test.go") and not f.startswith("zz_"):
            src = open(os.path.join(d, f), encoding="utf-8", errors="replace").read()
            for m in re.finditer(r'"((?:[^"\\\n]|\\.)*)"', src):
                t = m.group(1)
                if 1 <= len(t) <= 24 and "%" not in t and "\\" not in t and t.isascii() and t.isprintable() and "/" not in t and t.strip():
                    lits.append(t)
    out = []
    for t in sorted(set(lits))[:40]:
        for line in (t, t + "web01", t + "web01 x"):
            if "msg=audit(" not in line:
                out.append(line.encode())
    return out


def N(seq, kind, typ="o", ses="", pid="", res="s", nargs=0, variant=0):
    return "N:%d:%s:%s:%s:%s:%s:%d:%d" % (seq, kind, typ, hx(ses), hx(pid), res, nargs, variant)


def G(pid, cred="alice", has=1, tag=None):
    return "G:%d:%s:%d:%s" % (pid, hx(cred), has, tag if tag is not None else str(abs(pid) % 250))


def kernel_event(r, seq, ses, pid, allow_incomplete=True):
    """the records of one kernel event, in kernel order"""
    k = r.below(10)
    res = r.choice("ssf")
    if k < 3:
        return [N(seq, "s", "o", ses, pid, res, 0, r.below(8))]
    recs = [N(seq, "y", "o", ses, pid, res, 0, r.below(8))]
    if k < 8:
        recs.append(N(seq, "x", nargs=r.below(4), variant=r.below(8)))
    for _ in range(r.below(3)):
        recs.append(N(seq, "p", variant=r.below(8)))
    if k == 9 and r.below(3) == 0:
        recs.insert(0, recs.pop(r.below(len(recs))))          # a non-SYSCALL record first
    end = r.below(8)
    if end < 4:
        recs.append(N(seq, "t"))
    elif end < 6:
        recs.append(N(seq, "e"))
    elif end < 7 or not allow_incomplete:
        recs += [N(seq, "t"), N(seq, "e")]
    # else: no completing record (flushed when Read returns, or by expiry)
    return recs


def interleave(r, events, width=3):
    """records of up to `width` concurrent events, each event's own order preserved"""
    out = []
    pending = [list(e) for e in events]
    active = []
    while pending or active:
        while pending and len(active) < width and (not active or r.below(2) == 0):
            active.append(pending.pop(0))
        if not active:
            active.append(pending.pop(0))
        i = r.below(len(active))
        out.append(active[i].pop(0))
        if not active[i]:
            active.pop(i)
    return out


def simple_stream(r, width=3):
    """fully correlated, fault-free: login, LOGIN record, then interleaved events of that session"""
    pid = 100 + r.below(50)
    ses = str(1 + r.below(9))
    ops = [G(pid, "user%d" % pid), N(1, "s", "l", ses, str(pid), "s")]
    events = [kernel_event(r, 2 + i, ses, str(pid), allow_incomplete=False) for i in range(1 + r.below(6))]
    ops += interleave(r, events, width)
    if r.below(3) == 0:
        ops.insert(2 + r.below(len(ops) - 1), "E")
    return {"fail": "-", "ops": ops}


def random_stream(r, thorough=False):
    nsess = 1 + r.below(3)
    streams = []
    seq = 1 + r.below(5)
    nwrites = 0
    for s in range(nsess):
        pid = 100 + s
        ses = r.choice([str(1 + s), str(1 + s), str(1 + s), "4294967295", ""])
        pidtok = r.choice([str(pid)] * 6 + ["x1", "+%d" % pid, "0%d" % pid, ""])
        events = [[N(seq, "s", "l", ses, pidtok, r.choice("ssf"))]]
        seq += 1
        for _ in range(r.below(5)):
            events.append(kernel_event(r, seq, ses, str(pid)))
            seq += 1 + (r.below(4) == 0)
        if r.below(2):
            events.append([N(seq, "s", "d", ses, str(pid), r.choice("ssf"))])
            seq += 1
        if r.below(6) == 0 and len(events) > 1:
            # a stray late record of an earlier event
            e = r.choice(events[1:])
            events.append([e[0].replace(":y:", ":p:", 1) if ":y:" in e[0] else N(int(e[0].split(":")[1]), "p")])
        if r.below(8) == 0 and len(events) > 2:
            i = 1 + r.below(len(events) - 1)
            events[i - 1], events[i] = events[i], events[i - 1]      # out-of-order start
        recs = interleave(r, events, 1 + r.below(3))
        nwrites += len(events)
        login_kind = r.below(10)
        if login_kind < 7:
            login = G(pid, "user%d" % s)
        elif login_kind == 7:
            login = G(pid, "user%d" % s, has=0)
        elif login_kind == 8:
            login = G(-pid if r.below(2) else 0, "user%d" % s)
        else:
            login = None
        pos = r.choice([0, 0, 1, len(recs), r.below(len(recs) + 1)])
        if login:
            recs.insert(pos, login)
        streams.append(recs)
    # merge the sessions' streams
    ops = interleave(r, streams, nsess)
    for _ in range(r.below(3)):
        ops.insert(r.below(len(ops) + 1), "E")
    if r.below(3) == 0:
        ops.insert(r.below(len(ops) + 1), "B:" + hx(r.choice(BAD_LINES)))
    if thorough and r.below(40) == 0:
        ops.insert(r.below(len(ops) + 1), "W")
    fail = "-"
    if r.below(3) == 0:
        fail = str(r.below(max(1, nwrites)))
    return {"fail": fail, "ops": ops}


class AuditProcFamily(Family):
    race = True
    race_cases = 40
    prop = "C15"
    harness_mode = ["auditproc"]
    driver_args = ["auditproc"]
    uses_gen = ("auditd.go",)
    trusted = ["auparse.ParseLogLine, aucoalesce.CoalesceMessages/ResolveIDs are abstract in the model (a line comes with what the parser makes of it; coalesce = the fields the tracker reads); exercised through the real library",
               "go-libaudit Reassembler modelled from its source (Put / CleanUp / Clear; sequence numbers without roll-over; expiry as an explicit input)",
               "the three Go routines of Read are sequenced by the harness (unbuffered channels, an empty line after every line, Read's Go routine observed parked in its select); the model is the sequential run with a poll after every input",
               "channels, select, context, sync.WaitGroup as documented"]
    assumptions = ["observation point: events at the EventEncoder (session, time stamp, outcome, number of process arguments, login name), Read's return value, the input during which the injected write failure happened",
                   "the stale-data ticker (1 min) does not fire during a case"]
    rule = ""

    def race_select(self, cases, tier):
        n = 6 if tier == "quick" else 40
        return [c for c in cases if c.get("cb")][:n] + [c for c in cases if not c.get("cb")][:n]

    def modes_for(self, c):
        if c.get("cb"):
            return (["cbconc"], ["cbconc"])
        if c.get("reasm"):
            return (["reasm"], ["reasm"])
        return (self.harness_mode, self.driver_args)

    def harness_line(self, c):
        if c.get("cb"):
            return "%s %d %d %d" % ((c["id"],) + tuple(c["cb"]))
        if c.get("reasm"):
            return "%s %d %d %s" % (c["id"], c["reasm"][0], c["reasm"][1], ";".join(c["ops"]))
        return "%s %s %s%s%s" % (c["id"], c["fail"], ";".join(c["ops"]), (" after=%d" % c["after"]) if c.get("after") else "",
                                 " stall=1" if c.get("stall") else "")

    def driver_line(self, c, impl_obs):
        s = self.harness_line(c)
        if impl_obs is not None:
            s += " obs=" + impl_obs
        return s

    def sample(self, c):
        if c.get("stall"):
            return {"fail_at_write": c["fail"], "ops": c["ops"], "failing_write_hangs_while_a_login_arrives": True}
        if c.get("cb"):
            return {"callback_from_goroutines": c["cb"][0], "deliveries_each": c["cb"][1], "variant": c["cb"][2]}
        if c.get("after"):
            return {"fail_at_write": c["fail"], "ops": c["ops"], "after_seq": c["after"]}
        if c.get("reasm"):
            return {"reassembler_only": True, "max_in_flight": c["reasm"][0], "timeout_ms": c["reasm"][1], "ops": c["ops"]}
        return {"fail_at_write": c["fail"], "ops": c["ops"]}

    def signature(self, c, rec):
        return "%s|%s" % (";".join(c["ops"]), rec.get("ispec"))

    def shrink_candidates(self, c):
        ops = c["ops"]
        return [dict(c, ops=ops[:i] + ops[i + 1:]) for i in range(len(ops)) if len(ops) > 1]

    def stats(self, cases, recs):
        d = {"ops": {}, "results": {}, "with_write_fault": 0, "lengths": {}, "fired": 0, "record_kinds": {}}
        for c in cases:
            for op in c["ops"]:
                if c.get("reasm"):
                    break
                d["ops"][op[0]] = d["ops"].get(op[0], 0) + 1
                if op[0] == "N":
                    k = op.split(":")[2]
                    d["record_kinds"][k] = d["record_kinds"].get(k, 0) + 1
            b = min(len(c["ops"]) // 10 * 10, 100)
            d["lengths"][str(b)] = d["lengths"].get(str(b), 0) + 1
            o = recs.get(c["id"], {}).get("impl") or ""
            if c.get("reasm"):
                d["reassembler_only"] = d.get("reassembler_only", 0) + 1
                if "W" in c["ops"]:
                    d["reassembler_with_expiry"] = d.get("reassembler_with_expiry", 0) + 1
                if o.startswith("!stall"):
                    d["stalled_skipped"] = d.get("stalled_skipped", 0) + 1
                continue
            parts = o.split(";")
            e = parts[-2].split("@")[0] if len(parts) >= 2 else "?"
            d["results"][e] = d["results"].get(e, 0) + 1
            if c["fail"] != "-":
                d["with_write_fault"] += 1
            if parts and parts[-1] not in ("F:-", ""):
                d["fired"] += 1
        return d

    def flowing_expiry(self, r):
        """a correlated session with compound events left incomplete, then expiry while the stream keeps
        flowing (the maintenance Go routine and the parser Go routine hand groups over concurrently)"""
        pid = 100 + r.below(50)
        ses = str(1 + r.below(9))
        ops = [G(pid, "user%d" % pid), N(1, "s", "l", ses, str(pid), "s")]
        for i in range(1 + r.below(3)):
            seq = 2 + i
            ops += [N(seq, "y", "o", ses, str(pid), r.choice("sf")), N(seq, "x", nargs=1 + r.below(2)), N(seq, "p", variant=r.below(2))]
        ops.append("V")
        ops.append(N(40, "s", "o", ses, str(pid), "s"))
        return {"fail": "-", "ops": ops}

    def reasm_case(self, r, with_expiry):
        """the reassembler alone: few sequence numbers, every record kind in any order, a table so small
        that it overflows, optionally expiry"""
        nseq = 1 + r.below(6)
        ops = []
        for _ in range(1 + r.below(18)):
            k = r.choice("sssyyxpppptte")
            ops.append(N(1 + r.below(nseq), k, "o", "1", "9", "s", r.below(3) if k == "x" else 0, 0))
            if r.below(12) == 0:
                ops.append("M")
            if with_expiry and r.below(10) == 0:
                ops.append("W")
        return {"fail": "-", "ops": ops, "reasm": (1 + r.below(4) if r.below(4) else 1000, 250 if with_expiry else 3600000)}

    def systematic(self, rng):
        """a malformed line at every position, a write failure at every k, an invalid login at every point"""
        cs = []
        base = simple_stream(rng)["ops"]
        for i in range(len(base) + 1):
            for b in BAD_LINES[:4]:
                cs.append({"fail": "-", "ops": base[:i] + ["B:" + hx(b)] + base[i:]})
            if i in (0, len(base) // 2):
                for b in source_literal_lines():
                    cs.append({"fail": "-", "ops": base[:i] + ["B:" + hx(b)] + base[i:]})
            cs.append({"fail": "-", "ops": base[:i] + [G(0, "nobody")] + base[i:]})
            cs.append({"fail": "-", "ops": base[:i] + [G(7, "")] + base[i:]})
        for k in range(len(base) + 1):
            cs.append({"fail": str(k), "ops": list(base)})
            # the login arrives late: the cached events are written when it arrives
            cs.append({"fail": str(k), "ops": base[1:] + [base[0]]})
        return cs

    def cases(self, tier, rng):
        quick = tier == "quick"
        self.rule = ("systematic: a malformed line / invalid login at every position and a write failure at every k of a correlated stream; "
                     "seeded random: 1-3 sessions, records of up to 3 kernel events interleaved, single and compound events completed by PROCTITLE / EOE / both / nothing, "
                     "stray late records, out-of-order starts, malformed lines (incl. lines built from the string literals of the processor's own source), empty lines, invalid logins, unparsable PIDs, write failures; non-trivial = >=2 events written or stopped by an error")
        cs = self.systematic(rng)
        for _ in range(300 if quick else 3000):
            cs.append(simple_stream(rng))
        for _ in range(1500 if quick else 20000):
            cs.append(random_stream(rng, thorough=not quick))
        for _ in range(200 if quick else 3000):
            c = random_stream(rng) if rng.below(2) else simple_stream(rng)
            c["after"] = 1 + rng.below(14)          # Auditd.After: earlier events are ignored
            cs.append(c)
        for _ in range(1500 if quick else 15000):
            cs.append(self.reasm_case(rng, False))
        for _ in range(6 if quick else 60):
            cs.append(self.reasm_case(rng, True))
        flow = [self.flowing_expiry(rng) for _ in range(2 if quick else 12)]
        # first, so that the thorough tier's race-detector pass (first cases) covers concurrent deliveries
        # the callback itself handed groups from several Go routines at once (the reassembler calls it outside its lock)
        cb = [dict(ops=[], fail="-", cb=(g, n, v)) for g, n, v in ((2, 300, 0), (3, 200, 1), (2, 1500, 1))]
        # the failing write hangs first (a slow output) and a login arrives on the other stream meanwhile: the failure is
        # reported while Read's loop is busy outside its select (the one-slot error channel must hold it)
        st = []
        for c in cs:
            if c.get("fail", "-") != "-" and not c.get("reasm") and not c.get("after") and "W" not in c["ops"] and "V" not in c["ops"]:
                st.append(dict(c, stall=True))
                if len(st) >= (40 if quick else 400):
                    break
        cs = flow + cb + cs + st
        return cs

    def extra_cases(self, rng, n):
        return [random_stream(rng) for _ in range(n // 2)] + [simple_stream(rng) for _ in range(n // 2)]
