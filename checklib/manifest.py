"""Regenerates MANIFEST.json from one table (python3 -m checklib.manifest)."""
import json, os, subprocess
from .core import VERIF

READY = []          # filled below: properties whose check is registered

T = {}
def P(pid, engine, technique, text, note, design):
    T[pid] = dict(engine=engine, technique=technique, text=text, note=note, design=design)

P("C01", "tracker", "Lean 4 invariant proof over all operation histories + differential correspondence at the tracker API",
  "Theorem C01.identity (all histories, all write-failure positions, all cleanup placements): every emitted UserAction carries the identity of exactly the login whose PID is the PID of the LOGIN record that opened the event's session. Proved as an invariant of the executable tracker model by induction on the history. The model is tied to the code by running the real session tracker and the model on the same exhaustive small-alphabet histories and seeded random histories and comparing canonical observations; Spec.C01 is evaluated on the implementation's observations.",
  "assurance = min(proof about the hand-written model AM.Model.Tracker, correspondence sampling). Trusted: Lean kernel; Go map/Mutex/Atoi semantics as modelled; harness canonicalisation. Histories where a login matches several sessions (Go map order) are skipped.", "5 C01")
P("C02", "tracker", "Lean 4 conservation invariant (emitted ++ held = records since LOGIN) + differential correspondence",
  "Theorems C02.conservation / release_in_order / disposal_closes: for every tracked session, what was emitted followed by what is still held is exactly the list of its records since the LOGIN record, in order (none lost, duplicated or reordered); nothing is emitted before the login is known; a late login releases the held events in order. Correspondence as for C01 with the login placed at every split point; Spec.C02 (exact expected sequence and release time per session) judged on implementation observations.",
  "proof is about the sequential model without write failures and with one opener per session; the staleness window is C16. Correspondence sampling as C01.", "5 C02")
P("C03", "conc", "Lean 4 proof of serialisability for every schedule under one mutex + lock-trace correspondence and exhaustive schedule exploration of the real tracker",
  "Theorem Conc.serialisable (generic in state and operations): when every operation runs inside one mutex, then for EVERY schedule the shared state equals the sequential execution of the operations in lock-acquisition order; progress (no deadlock) and exclusive access are proved alongside. Tied to the code by hooks (build tag verif) that report every lock acquisition/release: the harness runs small concurrent programs of the real tracker under a controlled scheduler, enumerates all schedules at lock granularity, checks that each run's lock trace has the guarded shape the theorem assumes and that its outcome equals a sequential outcome computed by the model.",
  "the Go memory model and sync.Mutex are assumed; data races are reduced to 'every shared access inside the critical section' and exercised with -race in the thorough tier. Exhaustive schedule enumeration is validation of the tie, not the proof.", "5 C03")
P("C04", "tracker", "Lean 4 safety invariant at every prefix + differential correspondence",
  "Theorem C04.silence (no hypothesis on the history): anything ever emitted has a non-empty, non-'unset' session, a LOGIN record of that session in the history and a delivered login whose PID is that record's PID, and emitted events are never retracted (so it holds at every prefix). Correspondence on histories mixing correlated, cron-like, non-LOGIN-opened and session-less records, observed after every operation.",
  "as C01.", "5 C04")
P("C05", "sshd", "Lean 4 proofs over all byte strings (structural shape of every observation) + per-form extraction theorems + differential correspondence with fault injection",
  "Theorems C05.*: for every line and PID token a login is forwarded only directly after a successful write of a succeeded event, carries the line's PID and the written event's credential ID, at most once; a write failure returns the error and forwards nothing; cancellation forwards nothing and returns nil; the three accepted forms' full traces are instances of C06.form_correct. Expressions, dispatch tables and labels are regenerated from the source. Correspondence: real processor with recording encoder, logins receiver (ready / cancelled), injected write failure.",
  "entry-function bodies are hand-modelled and tied by correspondence; channel/select semantics modelled as 'ready' vs 'cancelled' hand-off.", "5 C05")
P("C06", "sshd", "Lean 4 proof (greedy leftmost-first regex semantics; forced-split theorem) against expressions regenerated from source + differential correspondence",
  "Theorem C06.form_correct: for each of the 21 message forms and every field value in the form's decidable field-level domain, processing the line sshd prints yields exactly one UserLogin whose every field equals the value in the message, outcome succeeded only for accepted authentications, with the right metric label and hand-off. Proved from a verified theory of the flat regex fragment (soundness, completeness, forced greedy split). The 22 expressions, both dispatch tables and the metric labels are regenerated from the Go source on every run, so the theorem is re-checked against what the code says now; the regex model itself is validated against Go's regexp on every generated line.",
  "domain: separators occur only where sshd put them (conditions listed in Spec.inDomain; evidence reports the in-domain fraction). Go regexp modelled on the flat fragment (byte-vs-rune argument in DESIGN C11).", "5 C06")
P("C07", "sshd", "Lean 4 algebraic law (Split/Join/TrimLeft round trip) + differential correspondence direct vs framed (callback and FIFO)",
  "Theorem C07.framed_eq_direct: for every PID token without blank/newline, non-empty blank padding and message without newline that does not start with a blank, processing the framed record '<pid><pad><msg>\\n' through the syslog ingester model equals processing (pid, msg) directly; internal spacing is preserved. Theorem C07.audit_trim for audit lines. Correspondence: every generated message once directly, once framed through the real SyslogIngester.Process and (thorough) a real FIFO.",
  "auparse.ParseLogLine is abstract (trims surrounding space).", "5 C07")
P("C08", "workers", "Lean 4 proof over the worker automata and the errgroup composition, instantiated from blocking facts regenerated from source + fault injection into the daemon built from the working tree",
  "Theorems C08.no_silent_exit / cause_cancels / group_stops / failing_processor_returns / exit_nonzero / fail_stop_now: no worker function can return nil; every failure cause (pipe EOF or error, unparsable audit line, write failure, invalid login, path not a FIFO, SIGTERM/SIGINT) leaves the group's context cancelled; in every cancelled state, whatever each worker is doing and for EVERY capacity and occupancy of the line buffer, each worker's own steps lead it to return without any help from its peers or the pipe writers, so eg.Wait returns and main ends in log.Fatal. The facts (select arms, closer Go routine, raced open, join, return nil, eg.Go count, Wait's error returned, log.Fatal) are re-extracted from the source on every run and C13.gen_good re-checks them. Correspondence: the daemon binary built from the working tree, every cause at idle and under sustained audit load, exit status and time to exit observed.",
  "partial: process exit, signal delivery and wall-clock bounds are runtime behaviour the model cannot exhibit (exercised on the binary: exit within 5 s); select fairness and Close-unblocks-Read are assumptions. The automata are hand-written; their tie to the code is the extracted facts plus the daemon runs.", "5 C08")
P("C09", "tracker", "Lean 4 step lemmas (ended sessions leave the table; logins only touch present sessions) + differential correspondence with PID reuse",
  "Theorems C09.ended_gone / flushed_gone / absent_session_silent / late_record_ignored: once the disposal record is emitted directly or released by a late login the session is erased, a login only ever binds to a session present in the table with its PID, and a stray record of an absent session changes nothing. Correspondence on histories that reuse a PID after the earlier use ended, for every arrival order of the earlier login; Spec.C09 (pairing of the k-th login with the k-th session of a PID, identity and completeness) judged on implementation observations.",
  "the pairing-by-order statement itself is checked by correspondence (Spec.C09), the theorems give its step-level core.", "5 C09")
P("C10", "handoff", "Lean 4 causal-order invariant over all interleavings of the hand-off model + concurrent runs on a shared O_APPEND file",
  "Theorem C10.causal: in the model of sshd processor || unbuffered channel || tracker || shared append-only output, for every interleaving a UserAction with a login's identity is preceded by that login's UserLogin. Whole-line output is validated by running both real processors concurrently on one O_APPEND file (and the built daemon in the thorough tier).",
  "partial: 'no torn lines' rests on one Write per Encode and atomic O_APPEND writes (runtime assumptions, exercised).", "5 C10")
P("C11", "sshd", "Lean 4 proofs for all byte strings + differential correspondence on arbitrary and mutated lines",
  "Theorems C11.* for EVERY line and PID token: never panics, never returns an error when the writer works, at most one event and one login, a login only with a succeeded event, an event only if the line starts with a recognised keyword, every extracted field is a substring of the line (or what encoding/json makes of one) or a fixed placeholder. Expressions and dispatch regenerated from source. Correspondence on arbitrary bytes, invalid UTF-8, NUL, 20 kB lines, systematic mutations, odd PID tokens.",
  "Go regexp modelled on the flat fragment; byte-vs-rune argument is part of the trusted base and exercised by the correspondence run.", "5 C11")
P("C12", "pipe", "Lean 4 proof of chunking independence + differential correspondence over a real FIFO",
  "Theorems C12.chunk_independent / tail / error / eof: feeding any partition of a byte stream delivers exactly the delimiter-terminated records of the concatenation, once, in order; bytes after the last delimiter are never delivered; delivery stops at the first callback error which is returned; EOF is an error. Correspondence: real NamedPipeIngester.Ingest over mkfifo with random write partitions, records beyond the bufio buffer, callback error at each index.",
  "partial: kernel read boundaries are arbitrary by assumption; bufio.Reader.ReadString modelled.", "5 C12")
P("C13", "workers", "Lean 4 proof over worker automata instantiated from blocking facts regenerated from source (for every buffer capacity and occupancy) + cancellation injected in each blocking state of the real workers",
  "Theorems C13.gen_good / ingester_stops / processor_stops / nothing_after_return / ingester_returns_error (+ necessity: bare_send_stuck, no_closer_stuck, blocking_open_stuck, no_join_delivers_late): with the facts of the current source, both pipe ingesters return within 3 own steps from each blocking state (waiting for a writer, reading an idle pipe, handing a record downstream) for EVERY capacity and occupancy, the audit processor returns within 8 own steps from every state of its Go routines and nothing is delivered after it returned; a returned worker has no further step. Correspondence: the real workers over real FIFOs and channels of capacities 0/1/4 (thorough: to 10000) empty, half full and full, cancelled in each state; return within 2 s, non-nil error, no delivery in the following 60 ms.",
  "partial: wall-clock bounds, Close unblocking a pending FIFO read and select fairness are runtime assumptions (exercised). Automata hand-written; tie = extracted facts + per-state runs.", "5 C13")
P("C14", "tracker", "Lean 4 rendering law + differential correspondence incl. the real parser/coalescer",
  "Theorem C14.render: toAuditEvent yields type UserAction, component auditd, the audit timestamp, auditId = session, outcome succeeded iff result = success, action/how/object and process_args iff present, and the login's identity content; C14.login_unchanged: no step alters a stored login. Correspondence at the tracker API over all results/argument counts and through the real auparse/reassembler/coalescer.",
  "aucoalesce is abstract in the model (the harness feeds the model the fields of the real coalesced event).", "5 C14")
P("C15", "auditproc", "Lean 4 invariant proofs over the audit-processor model (parser, go-libaudit reassembler, callback, one-slot error channel, Read loop) + differential correspondence through the real Auditd.Read",
  "Theorems C15.pushed_characterised / parse_error_names_first_rejected / rejected_line_then_poll_stops (every accepted line before the first rejected one is pushed, in order; the error carries exactly that line; Read cannot get past it), conservation / every_record_in_one_group / flushed_at_return (per sequence number: delivered ++ in flight = pushed, in order, at every point of every run), groups_are_whole_events / one_group_per_event (for ANY interleaving of the events' records: each group handed over is exactly one kernel event, none split, provided no record arrives after its event's completing record and nothing was force-evicted), first_error_kept / pending_error_stops / ctx_means_no_error_pending / invalid_login_stops (the one-slot channel keeps the first correlator error, a pending error stops Read). Correspondence: the real Auditd.Read (parser, real go-libaudit reassembler and coalescer, callback, real tracker) on generated streams with a malformed line / invalid login at every position, a write failure at every k, records of up to 3 events interleaved, stray late records, unparsable PIDs; Spec.C15 judged on the implementation's observation.",
  "assurance = min(proof about the hand-written model AM.Model.AuditProc, correspondence sampling). auparse/aucoalesce are abstract in the model (a line comes with what the parser makes of it; coalesce reduced to the fields the tracker reads); the reassembler is modelled from go-libaudit's source without sequence roll-over; the three Go routines of Read are sequenced by the harness (unbuffered channels, sentinel empty lines, Read observed parked in its select) and the model is the sequential run; expiry (2 s) only in the thorough tier.", "5 C15")
P("C16", "tracker", "Lean 4 exact characterisation of cleanup + integer window arithmetic on extracted constants + differential correspondence",
  "Theorems C16.sessions_exact / logins_exact: cleanup removes exactly the uncorrelated entries older than the cut-off and nothing else; C16.window: with the extracted ticker period and cut-off (60 s, regenerated from source) halves within one period are always correlated and halves more than two periods apart never. Correspondence with cut-offs captured between any two arrivals; Spec.C02's staleness clause judged on implementation observations.",
  "time.Ticker not dropping ticks and the time stamps compared are runtime assumptions; the real-time run is thorough tier only.", "5 C16")
P("C17", "sshd", "Lean 4 proof for arbitrary client names against expressions regenerated from source + differential correspondence with adversarial names",
  "Theorems C17.failed_password / max_attempts / invalid_user: for EVERY user name without newline (spaces, ' from ', ' port ', embedded fragments, empty), every address without blank, every decimal port, exactly one failed event is emitted whose source and port are the ones sshd appended. The expressions are regenerated from openssh_regex.go on every run. Correspondence with adversarial names through the real processor.",
  "as C06.", "5 C17")
P("C18", "health", "Lean 4 fold law + snapshot consistency under all interleavings + httptest correspondence and schedule exploration",
  "Theorems C18.status / snapshot / wait: the handler answers 200/ok iff every registered component has been marked ready since its last registration, the body is exactly the fold of the registration log, overall = ok iff all listed are ok, for every interleaving at lock granularity. Correspondence: real ReadyzHandler via httptest on generated logs; controlled scheduler for requests racing updates.",
  "net/http and encoding/json trusted.", "5 C18")
P("C19", "sshd", "Lean 4 counter-delta law for all lines against labels regenerated from source + registry-delta correspondence",
  "Theorems C19.counted_once / method_label / quiet for EVERY line: an emitted UserLogin comes with exactly one increment whose outcome label matches the event's outcome and whose method is password / ssh-key / ssh-cert as required; lines without a recognised keyword change no counter. Labels per dispatch case and per entry function are regenerated from source. Correspondence reads Gather() deltas of a private registry around every line.",
  "prometheus CounterVec trusted.", "5 C19")
P("C20", "dirreader", "Lean 4 refinement proof over all operation sequences + differential correspondence on an in-memory file system",
  "Theorems C20.order / lines: start-up order is decreasing rotation number then the live file for any N; for every sequence of append / partial append / rotate / truncate (each event processed before the next change) the delivered sequence is the complete lines of the initial files, then every completed line of the live file exactly once, in order, without the newline. Correspondence: real LogDirReader loop over an in-memory fileSystem/fsWatcher shim.",
  "partial: fsnotify delivery/coalescing outside the model (the property's proviso).", "5 C20")

ENGINES = [
    {"name": "sshd", "path": "lean/AM/Model/Sshd.lean", "serves_properties": ["C05", "C06", "C07", "C11", "C17", "C19"], "kind_free_text": "Lean model of processors/sshd + ingesters/syslog over regenerated expressions; Go harness mode sshd/syslog"},
    {"name": "tracker", "path": "lean/AM/Model/Tracker.lean", "serves_properties": ["C01", "C02", "C04", "C09", "C14", "C16"], "kind_free_text": "Lean model of the session tracker; Go harness mode tracker"},
    {"name": "conc", "path": "lean/AM/Model/Conc.lean", "serves_properties": ["C03", "C18"], "kind_free_text": "Lean model of threads of lock/unlock/act steps under any schedule; Go harness mode conc (controlled scheduler on the verif hooks)"},
    {"name": "health", "path": "lean/AM/Model/Health.lean", "serves_properties": ["C18"], "kind_free_text": "Lean model of internal/health; Go harness mode health (httptest)"},
    {"name": "pipe", "path": "lean/AM/Model/Pipe.lean", "serves_properties": ["C12"], "kind_free_text": "Lean model of NamedPipeIngester.Ingest over bufio.ReadString; Go harness mode pipe (real FIFO)"},
    {"name": "dirreader", "path": "lean/AM/Model/DirReader.lean", "serves_properties": ["C20"], "kind_free_text": "Lean model of the audit log directory reader; Go harness mode dir (in-memory fileSystem/fsWatcher shim)"},
    {"name": "workers", "path": "lean/AM/Model/Workers.lean", "serves_properties": ["C08", "C13"], "kind_free_text": "Lean automata of the three pipeline workers and the errgroup, instantiated from AM/Gen/Facts.lean; Go harness modes workers (per-state cancellation) and daemon (built binary)"},
    {"name": "auditproc", "path": "lean/AM/Model/AuditProc.lean", "serves_properties": ["C15"], "kind_free_text": "Lean model of Auditd.Read (parser, reassembler, callback, error channels) around the tracker model; Go harness mode auditproc"},
]


def build(ready):
    try:
        commits = subprocess.run(["git", "-C", "/repo", "log", "--format=%H %s", "--grep=verif hooks"], capture_output=True, text=True).stdout.split("\n")
        hooks = [c.split(" ")[0] for c in commits if c.strip()]
    except Exception:
        hooks = []
    m = {"version": 1, "setup_cmd": "./setup.sh",
         "hooks": {"guard": "verif", "enable": "go build -tags verif -overlay work/overlay.json (harness sources stay under /verif/harness and are overlaid at build time; see DESIGN.md 2.1, 7)",
                   "baseline_off_cmd": "cd /repo && GOFLAGS=-mod=mod GOPROXY=off GOSUMDB=off go test -vet=off -count=1 ./...",
                   "source_commits": hooks, "add_only": True},
         "engines": ENGINES, "checks": [], "not_applicable": [],
         "notes": "Every check: tools/extract regenerates lean/AM/Gen from /repo's working tree, lake rebuilds the property's proof module (obligations = its theorems, axioms audited), the Go harness is rebuilt from the working tree, then model and implementation are compared on generated cases (VERIF_SEED). See DESIGN.md."}
    for pid in sorted(T):
        t = T[pid]
        if pid in ready:
            m["checks"].append({"property_id": pid, "quick_cmd": "./check %s quick" % pid, "thorough_cmd": "./check %s thorough" % pid,
                                "evidence_file": "/verif/evidence/%s.json" % pid, "replay_cmd_template": "./check %s --replay {path}" % pid,
                                "engine": t["engine"], "level_claimed": {"category": "proof", "text": t["text"], "design_ref": "DESIGN.md section " + t["design"]},
                                "level_note": t["note"], "technique": t["technique"]})
        else:
            m["not_applicable"].append({"property_id": pid, "reason": "check under construction in this session (model and theorem planned in DESIGN.md section %s); not claimed until it runs" % t["design"]})
    return m


if __name__ == "__main__":
    import sys
    ready = sys.argv[1:]
    m = build(ready)
    json.dump(m, open(os.path.join(VERIF, "MANIFEST.json"), "w"), indent=1)
    print("manifest:", len(m["checks"]), "checks,", len(m["not_applicable"]), "not applicable")
