"""C10: the two pipelines writing concurrently to one O_APPEND file, in-process and through the
built daemon; the output must be whole events, none twice, every UserAction after its UserLogin."""
from .run import Family


class HandoffFamily(Family):
    race = True
    race_cases = 40
    prop = "C10"
    harness_mode = ["handoff"]
    driver_args = ["handoff"]
    uses_gen = ("NONE",)
    trusted = ["one Write per Encode (encoding/json.Encoder) and atomicity of one write(2) to an O_APPEND file with respect to the other Go routine: runtime behaviour no model can exhibit, exercised here on a real file",
               "channels / select / the tracker mutex as in C03",
               "the schedule of the two feeding Go routines is left to the Go scheduler (biased by start delays and pauses); the model's observation is schedule-independent (multiset of lines), the ordering clauses are judged on the implementation's file"]
    assumptions = ["observation: the lines of the output file in file order, each decoded strictly as one audit event (unknown fields, trailing data, missing final newline count as torn)",
                   "in-process mode waits until the line buffer is empty and the parser is parked; daemon mode waits for the expected number of lines (8 s), then 30 ms more"]
    rule = "N sessions (1..40), each an accepted-publickey line on the sshd side and LOGIN + k commands + CRED_DISP on the audit side, fed concurrently by two Go routines (audit records of all sessions interleaved round-robin, bursts), start delays biasing which side goes first; in-process and through the built daemon (output: a regular file; and a FIFO with a slow reader and events larger than PIPE_BUF; 64 kB events into a regular file under a sustained stream of failed logins); non-trivial = at least 2 sessions"

    def harness_line(self, c):
        return "%s %s %s %d:%d %d%s" % (c["id"], c["mode"], ",".join("%d:%s:%d:%d" % tuple(s) for s in c["sessions"]), c["ds"], c["da"], c["seed"],
                                        ((" noise=%d" % c["noise"]) if c.get("noise") else "") + ((" big=%d" % c["big"]) if c.get("big") else ""))

    def driver_line(self, c, impl_obs):
        s = self.harness_line(c)
        if impl_obs is not None:
            s += " obs=%s raw=%s" % (self.impl_obs(impl_obs), impl_obs)
        return s

    def impl_obs(self, raw):
        t, _, items = raw.partition("|")
        its = sorted(x for x in items.split(";") if x)
        return ";".join([t] + its)

    def sample(self, c):
        return {"mode": c["mode"], "sessions": ["pid %d ses %s k %d" % tuple(s[:3]) for s in c["sessions"]][:6], "n_sessions": len(c["sessions"]),
                "delay_sshd_us": c["ds"], "delay_audit_us": c["da"], "seed": c["seed"], "failed_logins_interleaved": c.get("noise", 0),
                "command_line_bytes": 17 * c["big"] if c.get("big") else (7140 if c["mode"] == "f" else 2)}

    def signature(self, c, rec):
        return "%s/%s" % (c["mode"], rec.get("ispec"))

    def shrink_candidates(self, c):
        if c.get("noise"):
            return []
        ss = c["sessions"]
        return [dict(c, sessions=ss[:i] + ss[i + 1:]) for i in range(len(ss)) if len(ss) > 1]

    def stats(self, cases, recs):
        d = {"modes": {}, "sessions": {}, "lines_total": 0, "action_before_all_logins_done": 0}
        for c in cases:
            d["modes"][c["mode"]] = d["modes"].get(c["mode"], 0) + 1
            b = str(min(len(c["sessions"]) // 10 * 10, 40))
            d["sessions"][b] = d["sessions"].get(b, 0) + 1
            raw = (recs.get(c["id"], {}).get("impl") or "")
            d["lines_total"] += raw.count(";") + 1
        return d

    def gen(self, rng, mode, nmax):
        n = 1 + rng.below(nmax)
        ss = []
        base = 10
        for i in range(n):
            k = rng.below(5)
            ss.append((1000 + i, str(1 + i), k, base))
            base += k + 3
        return {"mode": mode, "sessions": ss, "ds": rng.choice([0, 0, 500, 3000]), "da": rng.choice([0, 0, 500, 3000]), "seed": rng.below(1 << 30)}

    def cases(self, tier, rng):
        quick = tier == "quick"
        cs = []
        for _ in range(150 if quick else 2500):
            cs.append(self.gen(rng, "p", 40))
        for _ in range(12 if quick else 150):
            cs.append(self.gen(rng, "d", 40))
        # both pipelines saturated at once: a stream of failed logins on the sshd side (each one an event
        # written by the sshd thread) while long sessions are written by the audit side
        for mode, nsess, k, noise in ([("p", 4, 1500, 6000), ("d", 4, 1500, 8000)] if quick else
                                      [("p", 4, 4000, 20000), ("d", 4, 6000, 60000), ("d", 8, 2000, 30000), ("d", 3, 5000, 40000)]):
            ss, base = [], 10
            for i in range(nsess):
                ss.append((1000 + i, str(1 + i), k, base))
                base += k + 3
            cs.append({"mode": mode, "sessions": ss, "ds": 0, "da": 0, "seed": rng.below(1 << 30), "noise": noise})
        # the events output is a FIFO read by a consumer that is behind and reads 1 kB at a time; every UserAction is
        # larger than PIPE_BUF (a long command line) while failed logins are written by the other pipeline
        for nsess, k, noise in ([(3, 24, 300), (2, 40, 600)] if quick else [(3, 24, 300), (2, 40, 600), (4, 60, 2000), (6, 30, 1500)] * 3):
            ss, base = [], 10
            for i in range(nsess):
                ss.append((1000 + i, str(1 + i), k, base))
                base += k + 3
            cs.append({"mode": "f", "sessions": ss, "ds": 0, "da": 0, "seed": rng.below(1 << 30), "noise": noise})
        # oversized events (64 kB command lines: many PIPE_BUF-sized pieces if the output is ever written piecewise) into a
        # regular file, while failed logins keep arriving on the other pipeline for the whole time
        for nsess, k, noise in ([(2, 100, 16000), (2, 120, 14000)] if quick else [(2, 100, 16000), (3, 80, 16000), (2, 150, 20000), (4, 40, 12000)] * 2):
            ss, base = [], 10
            for i in range(nsess):
                ss.append((1000 + i, str(1 + i), k, base))
                base += k + 3
            cs.append({"mode": "d", "sessions": ss, "ds": 0, "da": 0, "seed": rng.below(1 << 30), "noise": noise, "big": 3800})
        return cs

    def extra_cases(self, rng, n):
        return [self.gen(rng, "p", 40) for _ in range(min(n, 600))] + [self.gen(rng, "d", 40) for _ in range(30)]
