"""C03 (tracker) and the snapshot clause of C18 (health): small concurrent programs explored under
the controlled scheduler at lock granularity, judged against the set of sequential outcomes."""
from .run import Family
from .core import hx
from .fam_tracker import L, A


class ConcFamily(Family):
    race = True
    race_cases = 40
    harness_mode = ["conc"]
    driver_args = ["conc"]
    uses_gen = ("NONE",)
    trusted = ["sync.Mutex and the Go memory model (every shared access inside a critical section is what the model assumes; -race in the thorough tier exercises it)",
               "the hooks (build tag verif) report every acquisition/release of GenericSyncMap locks and of the tracker mutex; goroutine identity via runtime.Stack",
               "schedule exploration is validation of the tie between model and code, not the proof"]
    assumptions = ["scheduling points: before every lock acquisition, after every release, at every event write"]

    def race_select(self, cases, tier):
        """race-detector pass: the free-running programs as they are, the scheduled ones with a small schedule budget"""
        n = 6 if tier == "quick" else 40
        held = [c for c in cases if c.get("hold")][:n]
        rest = [dict(c, max=min(c["max"], 60 if tier == "quick" else 400)) for c in cases if c.get("threads") and not c.get("hold")][:n]
        return held + rest

    def __init__(self, prop, system):
        self.prop = prop
        self.system = system

    def harness_line(self, c):
        s = "%s %s %d %s" % (c["id"], self.system, c["max"], "|".join(";".join(t) for t in c["threads"]))
        if c.get("post"):
            s += " post=" + ";".join(c["post"])
        if c.get("pre"):
            s += " pre=" + ";".join(c["pre"])
        if c.get("hold"):
            s += " hold=1"
        if c.get("sched") is not None:
            s += " sched=" + c["sched"]
        return s

    def driver_line(self, c, impl_obs):
        s = "%s %s %d %s" % (c["id"], self.system, c["max"], "|".join(";".join(t) for t in c["threads"]))
        if c.get("post"):
            s += " post=" + ";".join(c["post"])
        if c.get("pre"):
            s += " pre=" + ";".join(c["pre"])
        if impl_obs is not None:
            s += " obs=" + impl_obs.replace(" ", ";")
        return s

    def impl_obs(self, raw):
        f = dict(x.split("=", 1) for x in raw.split(" ") if "=" in x)
        outs = sorted({o.split("@")[0] for o in f.get("outcomes", "").split("~")})
        # a lock trace outside the discipline the theorem assumes is a broken correspondence
        # (not by itself a violation): it makes the observation differ from the model's
        shape = f.get("shape", "ok")
        return "~".join(outs) + ("" if shape == "ok" else "!" + shape)

    def sample(self, c):
        return {"system": self.system, "threads": c["threads"], "before": c.get("pre"), "afterwards": c.get("post"), "free_running_with_stalled_write": bool(c.get("hold")), "max_schedules": c["max"], "schedule": c.get("sched")}

    def signature(self, c, rec):
        return "%s|%s" % (c["threads"], rec.get("ispec"))

    def shrink_candidates(self, c):
        out = []
        for i, t in enumerate(c["threads"]):
            for j in range(len(t)):
                nt = [list(x) for x in c["threads"]]
                del nt[i][j]
                nt = [x for x in nt if x]
                if len(nt) >= 2:
                    out.append(dict(c, threads=nt))
        return out

    def stats(self, cases, recs):
        d = {"threads": {}, "ops_total": {}}
        for c in cases:
            d["threads"][str(len(c["threads"]))] = d["threads"].get(str(len(c["threads"])), 0) + 1
            n = sum(len(t) for t in c["threads"])
            d["ops_total"][str(n)] = d["ops_total"].get(str(n), 0) + 1
        return d

    def tracker_cases(self, tier, rng):
        S = "success"
        cs = []
        # the property's own shape: login || LOGIN record + follow-ups || events of another session || cleanup
        base = [
            [[L(77, "alice", tag="5")], [A(100, "1", "l", "77"), A(101, "1", "o", "77"), A(102, "1", "d", "77")]],
            [[L(77, "alice", tag="5")], [A(100, "1", "l", "77"), A(101, "1", "o", "77")], [A(200, "2", "l", "88"), A(201, "2", "o", "88")]],
            [[L(77, "alice", tag="5")], [A(100, "1", "l", "77"), A(101, "1", "o", "77")], ["S:f"]],
            [[L(77, "alice", tag="5")], [A(100, "1", "l", "77")], ["R:f"], [A(101, "1", "o", "77")]],
            [[L(77, "alice", tag="5"), L(88, "bob", tag="6")], [A(100, "1", "l", "77"), A(200, "2", "l", "88")], [A(101, "1", "d", "77")]],
            [[A(100, "1", "l", "77"), L(77, "alice", tag="5")], [A(101, "1", "o", "77"), A(102, "1", "o", "77")]],
            # records of ONE session delivered by two Go routines (the parser and the maintenance loop) while its login waits
            [[L(77, "alice", tag="5")], [A(100, "1", "l", "77")], [A(101, "1", "o", "77")]],
            [[L(77, "alice", tag="5"), A(100, "1", "l", "77")], [A(101, "1", "o", "77")], [A(102, "1", "d", "77")]],
        ]
        for th in base:
            cs.append({"threads": th, "max": 2500 if tier == "quick" else 30000})
        # the same races with the hidden state made visible afterwards: once all threads are done the session's next
        # record and its login (again) are delivered sequentially — whatever the race left behind (a session that was
        # never opened, a login that was dropped, a hold queue that was lost) then shows in what is emitted
        post1 = [A(105, "1", "o", "77"), L(77, "alice", tag="5"), A(106, "1", "d", "77")]
        with_post = [
            [[L(77, "alice", tag="5")], [A(100, "1", "l", "77")], ["R:f"]],
            [[L(77, "alice", tag="5")], [A(100, "1", "l", "77"), A(101, "1", "o", "77")], ["S:f"]],
            [[L(77, "alice", tag="5")], [A(100, "1", "l", "77")], ["R:f", "S:f"]],
            [[L(77, "alice", tag="5"), A(100, "1", "l", "77")], ["R:f"], ["S:f"]],
            [[A(100, "1", "l", "77"), A(101, "1", "o", "77")], [L(77, "alice", tag="5")], ["S:f", "R:f"]],
        ]
        for th in with_post:
            cs.append({"threads": th, "post": post1, "max": 2500 if tier == "quick" else 30000})
        # free-running (no controlled scheduler): thread 0's first event write stalls (slow output) while the other
        # threads deliver; an operation that gives up instead of waiting for the tracker, or slips past it, leaves
        # a state no sequential order produces — made visible by the deliveries afterwards
        cs += self.hold_cases(tier)
        n = 12 if tier == "quick" else 60
        for _ in range(n):
            self._random_program(cs, tier, rng)
        return cs

    def hold_cases(self, tier):
        cs = []
        carol = L(88, "carol", tag="8")
        t0 = [L(77, "alice", tag="5"), A(100, "1", "l", "77"), A(101, "1", "o", "77")]
        post2 = [A(200, "2", "l", "88"), A(201, "2", "o", "88"), A(102, "1", "d", "77")]
        holds = [
            dict(pre=[carol], threads=[t0, ["R:f"]], post=post2),
            dict(pre=[A(200, "2", "l", "88")], threads=[t0, ["S:f"]], post=[carol, A(201, "2", "o", "88")]),
            dict(pre=[carol, A(300, "3", "l", "99")], threads=[t0, ["R:f", "S:f"]], post=post2 + [L(99, "dave", tag="9"), A(301, "3", "o", "99")]),
            dict(pre=[], threads=[t0, [carol, A(200, "2", "l", "88")], ["S:f"]], post=[A(201, "2", "o", "88")]),
            dict(pre=[carol], threads=[t0, [A(200, "2", "l", "88")], ["R:f"]], post=[A(201, "2", "o", "88")]),
            # a late login releases the held events (its first write stalls) while the next event of the same session is
            # delivered: that event must come after everything that was held (C02's order, under concurrency)
            dict(pre=[A(100, "1", "l", "77"), A(101, "1", "o", "77"), A(102, "1", "o", "77")],
                 threads=[[L(77, "alice", tag="5")], [A(103, "1", "o", "77")]], post=[A(104, "1", "d", "77")]),
            dict(pre=[carol, A(100, "1", "l", "77"), A(101, "1", "o", "77")],
                 threads=[[L(77, "alice", tag="5")], [A(102, "1", "o", "77"), A(200, "2", "l", "88")], [A(103, "1", "d", "77")]], post=[A(201, "2", "o", "88")]),
        ]
        for hcase in holds:
            for rep in range(2 if tier == "quick" else 6):
                cs.append(dict(hcase, hold=True, max=1, rep=rep))
        return cs

    def _random_program(self, cs, tier, rng):
        if True:
            nth = 2 + rng.below(2)
            pool = []
            pids = [77, 88]
            for s, pid in (("1", 77), ("2", 88)):
                recs = [A(100 * int(s), s, "l", str(pid))] + [A(100 * int(s) + 1 + k, s, rng.choice("od"), str(pid)) for k in range(rng.below(3))]
                pool.append(recs)
                pool.append([L(pid, "u%d" % pid, tag=str(pid % 250))])
            pool.append([rng.choice(["S:f", "R:f", "S:z"])])
            rng_threads = [[] for _ in range(nth)]
            total = 0
            for stream in pool:
                if rng.below(4) == 0:
                    continue
                t = rng.below(nth)
                for op in stream:
                    if total >= 7:
                        break
                    rng_threads[t].append(op)
                    total += 1
            th = [t for t in rng_threads if t]
            if len(th) >= 2:
                c = {"threads": th, "max": 800 if tier == "quick" else 5000}
                if rng.below(2):
                    c["post"] = [A(150, "1", "o", "77"), L(77, "u77", tag="77"), A(250, "2", "o", "88"), L(88, "u88", tag="88")]
                cs.append(c)

    def health_cases(self, tier, rng):
        cs = []
        a, b = hx("a"), hx("b")
        base = [
            [["add:" + a, "ready:" + a], ["get"]],
            [["add:" + a, "add:" + b, "ready:" + a], ["ready:" + b], ["get"]],
            [["ready:" + a], ["add:" + a], ["get", "get"]],
            [["add:" + a, "ready:" + a, "add:" + a], ["get"], ["ready:" + a]],
            # IsReady / WaitForReady's view: two workers mark the shared component ready while another is pending
            [["add:" + a, "add:" + b, "ready:" + a], ["ready:" + a], ["isready", "get"]],
            [["add:" + a, "ready:" + a], ["add:" + a], ["isready", "isready"]],
            # one writer that never makes both components ready at the same time, against one request:
            # a torn iteration would see a = ok (early) and b = ok (late)
            [["add:" + a, "ready:" + a, "add:" + b, "add:" + a, "ready:" + b], ["get"]],
            [["add:" + a, "ready:" + a, "add:" + b, "add:" + a, "ready:" + b], ["isready"]],
            # the asking thread registers a component itself that nobody ever marks ready: whatever the
            # others do (two workers marking a shared component), it must not be told "ready"
            [["add:" + a, "ready:" + a], ["ready:" + a], ["add:" + b, "isready", "get"]],
            [["add:" + a, "ready:" + a, "ready:" + a], ["add:" + a, "ready:" + a], ["add:" + b, "isready"]],
        ]
        for th in base:
            cs.append({"threads": th, "max": 3000 if tier == "quick" else 30000})
        for _ in range(8 if tier == "quick" else 50):
            th = []
            for _ in range(2 + rng.below(2)):
                th.append([rng.choice(["add:" + a, "add:" + b, "ready:" + a, "ready:" + b]) for _ in range(1 + rng.below(2))])
            th.append([rng.choice(["get", "get", "isready"]) for _ in range(1 + rng.below(2))])
            cs.append({"threads": th, "max": 1500 if tier == "quick" else 5000})
        return cs

    def cases(self, tier, rng):
        if self.system == "tracker":
            self.rule = "small concurrent programs (login || LOGIN record + follow-ups || another session || cleanup, plus seeded random splits of two sessions over 2-3 threads); every schedule at lock granularity up to the stated maximum; non-trivial = >=2 sequential outcomes or >=6 sequential orders"
            return self.tracker_cases(tier, rng)
        self.rule = "registrations / ready-marks racing with status requests over 2-4 threads, every schedule at lock granularity up to the stated maximum"
        return self.health_cases(tier, rng)

    def extra_cases(self, rng, n):
        return self.cases("quick", rng)
