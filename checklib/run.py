"""Generic flow of one property check: proof obligations + correspondence run + search + evidence."""
import json, os, sys, time, re
from . import core
from .core import Rng


class Family:
    """what a property plugs into the generic flow"""
    prop = None
    harness_mode = None          # argv for the Go harness
    driver_args = None           # argv for amdriver
    trusted = []
    assumptions = []
    rule = ""
    uses_gen = ()                # substrings of extractor 'unsupported' messages relevant to this property

    def cases(self, tier, rng):  # -> list of dict (each gets an 'id')
        raise NotImplementedError

    def extra_cases(self, rng, n):   # search budget after a break
        return []

    def harness_line(self, c):
        raise NotImplementedError

    def driver_line(self, c, impl_obs):
        raise NotImplementedError

    def sample(self, c):
        return {k: v for k, v in c.items() if k != "id"}

    def impl_obs(self, raw):      # the part of the harness output that is compared with the model's observation
        return raw

    def modes_for(self, c):        # (harness argv, driver argv) for a case
        return (self.harness_mode, self.driver_args)

    def shrink_candidates(self, c):
        return []

    def signature(self, c, rec):
        return ""

    def stats(self, cases, recs):
        return {}


CRASHES = {}


def xrun(fam, cases):
    """run implementation and model on the cases; returns {id: rec}"""
    groups = {}
    for c in cases:
        key = (tuple(fam.modes_for(c)[0]), tuple(fam.modes_for(c)[1]))
        groups.setdefault(key, []).append(c)
    impl, model = {}, {}
    rc = rc2 = 0
    err = err2 = ""
    for (hm, da), cs in groups.items():
        # cases that come with the implementation's observation (produced by a harness mode that
        # generates its own cases from recorded data) are not run again
        pre = {c["id"]: c["pre_obs"] for c in cs if c.get("pre_obs") is not None}
        hl = [fam.harness_line(c) for c in cs if c.get("pre_obs") is None]
        i1, r1, e1 = core.run_lines([core.HARNESS] + list(hm), hl) if hl else ({}, 0, "")
        if r1 not in (0, 124) and hl:
            # the harness process died (a panic or a fatal error inside the code under test takes the process down):
            # the cases without an answer are run again, each alone; one that kills the process again, alone, is a
            # concrete failing run of the implementation
            missing = [c for c in cs if c.get("pre_obs") is None and c["id"] not in i1]
            for c in missing[:3]:
                o1, rr, ee = core.run_lines([core.HARNESS] + list(hm), [fam.harness_line(c)], timeout=300)
                if c["id"] in o1:
                    i1[c["id"]] = o1[c["id"]]
                elif rr not in (0, 124):
                    o2, rr2, ee2 = core.run_lines([core.HARNESS] + list(hm), [fam.harness_line(c)], timeout=300)
                    if c["id"] not in o2 and rr2 not in (0, 124):
                        msg = [l for l in ee2.splitlines() if l.startswith(("panic:", "fatal error:"))]
                        i1[c["id"]] = "!crash:" + (msg[0] if msg else "exit-%s" % rr2).replace(" ", "_")[:160]
                        CRASHES[c["id"]] = ee2[-1500:]
            rest = [c for c in missing[3:]]
            if rest and any(c["id"] in i1 for c in missing[:3]):
                o3, r3, e3 = core.run_lines([core.HARNESS] + list(hm), [fam.harness_line(c) for c in rest])
                i1.update(o3)
        i1.update(pre)
        impl.update(i1)
        dl = [fam.driver_line(c, i1.get(c["id"])) for c in cs]
        m1, r2, e2 = core.run_lines([core.DRIVER] + list(da), dl)
        model.update(m1)
        rc, rc2 = rc or r1, rc2 or r2
        err, err2 = err or e1, err2 or e2
    recs = {}
    for c in cases:
        i = impl.get(c["id"])
        if i is not None and not i.startswith("!crash"):
            i = fam.impl_obs_for(c, i) if hasattr(fam, "impl_obs_for") else fam.impl_obs(i)
        m = model.get(c["id"])
        d = core.parse_driver(m) if m else {"obs": None}
        if (i or "").startswith("!crash"):
            d["ispec"] = "FAIL:the-implementation-crashed(" + i[7:] + ")"
        recs[c["id"]] = {"impl": i, "model": d.get("obs"), "spec": d.get("spec"), "ispec": d.get("ispec"),
                         "dom": d.get("dom"), "nt": d.get("nt"), "amb": d.get("amb")}
    return recs, (rc, err, rc2, err2)


def shrink(fam, c, pred, budget=200, seconds=45):
    """greedy shrinking: keep a candidate while pred(candidate) still holds (bounded in steps and time)"""
    cur = c
    steps = 0
    improved = True
    t_end = time.time() + seconds
    while improved and steps < budget and time.time() < t_end:
        improved = False
        for cand in fam.shrink_candidates(cur):
            steps += 1
            if steps > budget or time.time() > t_end:
                break
            cand = dict(cand, id="shrink")
            try:
                if pred(cand):
                    cur = cand
                    improved = True
                    break
            except Exception:
                pass
    return cur


def match_known(prop, fam, c, rec):
    sig = fam.signature(c, rec)
    for k in core.known_findings():
        if k.get("property") == prop and k.get("status") == "open" and k.get("signature") and re.search(k["signature"], sig):
            return k
    return None


def check(fam, tier, seed, replay=None):
    prop = fam.prop
    t0 = time.time()
    core.RUN_TIMEOUT = 600 if tier == "quick" else 3000
    st = core.prepare()
    rng = Rng(seed).fork(prop)
    problems = []
    obligations, discharged, pp = core.proof_status(st, prop)
    problems += pp
    for u in st.get("unsupported", []):
        if any(tag in u for tag in fam.uses_gen) or not fam.uses_gen:
            problems.append("extractor: " + u)
    infra = []
    recheck = None
    if tier == "thorough" and discharged:
        # independent re-check of the compiled proof modules (and everything they import)
        mods = ["AM.Proofs." + m for m in core.proof_modules(prop)]
        rc, out = core.sh(["lake", "env", "leanchecker"] + mods, cwd=core.LEAN, timeout=1800)
        recheck = {"cmd": "lake env leanchecker " + " ".join(mods), "rc": rc, "tail": out[-300:]}
        if rc != 0:
            problems.append("leanchecker rejects the compiled proof modules: " + out[-300:])
    if not st.get("driver_ok"):
        infra.append("the Lean model (amdriver) does not build against the regenerated AM/Gen: " + st["log"].get("driver", "")[-600:])
    if not st.get("harness_ok"):
        infra.append("the harness does not build against the working tree: " + st["log"].get("harness", "")[-600:])

    cases, recs, viol, disagree = [], {}, [], []
    if not infra:
        if replay:
            rp = json.load(open(replay))
            cases = [dict(rp["case"], id="replay")] if rp.get("case") else []
        else:
            corpus = fam.corpus() if hasattr(fam, "corpus") else []
            cases = corpus + fam.cases(tier, rng)
            for i, c in enumerate(cases):
                c["id"] = "c%d" % i
        if cases:
            recs, rcs = xrun(fam, cases)
            if rcs[0] != 0 or rcs[2] != 0:
                infra.append("harness rc=%s %s / driver rc=%s %s" % (rcs[0], rcs[1][-300:], rcs[2], rcs[3][-300:]))
        for c in cases:
            r = recs.get(c["id"], {})
            if r.get("amb") == "1" or (r.get("impl") or "").startswith("!stall"):
                continue      # outcome depends on Go's map iteration order / the harness itself was stalled: no comparison, no verdict
            if (r.get("impl") or "").startswith("!crash"):
                viol.append(c)
                continue
            if r.get("impl") is None or r.get("model") is None:
                disagree.append(c)
                continue
            if r.get("spec") not in ("ok", None):
                problems.append("the model itself fails Spec on case %s: %s" % (c["id"], r["spec"]))
                viol.append(c) if (r.get("ispec") or "").startswith("FAIL") else None
            elif (r.get("ispec") or "-").startswith("FAIL"):
                viol.append(c)
            elif r["impl"] != r["model"]:
                disagree.append(c)
        # a break (proof, extractor or correspondence) without a concrete failing input: search more
        if (problems or disagree) and not viol and not replay:
            extra = fam.extra_cases(rng.fork("search"), 4000 if tier == "quick" else 40000)
            for i, c in enumerate(extra):
                c["id"] = "s%d" % i
            if extra:
                recs2, _ = xrun(fam, extra)
                for c in extra:
                    r = recs2.get(c["id"], {})
                    if (r.get("ispec") or "-").startswith("FAIL"):
                        viol.append(c)
                        recs[c["id"]] = r
                cases += extra
                recs.update({k: v for k, v in recs2.items() if k not in recs})

    # concurrent families: cases once more under the Go race detector (a few in the quick tier, more in thorough)
    race = None
    if getattr(fam, "race", False) and not infra and not replay:
        ok = st.get("race_ok") and os.path.exists(core.RACE_HARNESS)
        if not ok:
            ok, log = core.build_race_harness()
            if not ok:
                infra.append("the harness does not build with -race: " + log[-300:])
        if ok:
            nrace = getattr(fam, "race_cases", 60) if tier == "thorough" else getattr(fam, "race_quick", 6)
            sub = fam.race_select(cases, tier) if hasattr(fam, "race_select") else [c for c in cases if c.get("pre_obs") is None][:nrace]
            racy = []
            for c in sub:
                o, rc_, err_ = core.run_lines([core.RACE_HARNESS] + list(fam.modes_for(c)[0]), [fam.harness_line(c)], timeout=300)
                if "DATA RACE" in err_ or rc_ == 66:
                    racy.append((c, err_))
                    if len(racy) >= 2:
                        break
            race = {"cases": len(sub), "data_races": len(racy)}
            for c, err_ in racy[:1]:
                # a data race on a case of the property's own generator is a concrete failing run
                where = [l.strip() for l in err_.splitlines() if l.strip().startswith(("github.com/metal-toolbox", "main."))][:6]
                path = core.write_replay(prop, "schedule", {"case": {k2: v for k2, v in c.items() if k2 != "id"}, "race_detector": True,
                                         "report": err_[-1800:], "frames": where, "seed": seed, "tier": tier, "family": type(fam).__name__,
                                         "how": "work/verifharness-race " + " ".join(fam.modes_for(c)[0]) + "  <<<  " + fam.harness_line(c)[:300]})
                race["replay"] = path
                race_lines = ["VIOLATION property=%s replay=%s" % (prop, path)]
            if racy:
                problems.append("the Go race detector reports a data race on %d case(s); first: %s" % (len(racy), json.dumps(fam.sample(racy[0][0]))[:300]))

    # report
    lines = []
    nviol = 0
    if race and race.get("replay"):
        lines.append("VIOLATION property=%s replay=%s" % (prop, race["replay"]))
        nviol += 1
    seen_known = set()
    reported = set()
    for c in viol:
        r = recs[c["id"]]

        def still(cand):
            rr, _ = xrun(fam, [cand])
            return (rr["shrink"].get("ispec") or "-") == r["ispec"]
        small = shrink(fam, c, still, budget=120) if (not replay and len(reported) < 2) else c
        rr, _ = xrun(fam, [dict(small, id="shrink")])
        rs = rr["shrink"]
        if not (rs.get("ispec") or "-").startswith("FAIL"):
            # timing-dependent case: it failed in the run proper and passed when re-run alone;
            # report what was observed when it failed
            small, rs = c, dict(r, note="failed in the run, passed when re-run alone (timing-dependent)")
        k = match_known(prop, fam, small, rs)
        if k:
            if k["what"] not in seen_known:
                seen_known.add(k["what"])
                lines.append("KNOWN-FINDING: property=%s %s" % (prop, k["what"]))
            continue
        key = (rs.get("ispec"), fam.signature(small, rs))
        if key in reported:
            continue
        reported.add(key)
        if len(reported) > 5:
            continue
        path = core.write_replay(prop, "input", {"case": {k2: v for k2, v in small.items() if k2 != "id"},
                                 "impl_obs": rs.get("impl"), "model_obs": rs.get("model"), "spec_clause": rs.get("ispec"), "note": rs.get("note"),
                                 "seed": seed, "tier": tier, "family": type(fam).__name__})
        lines.append("VIOLATION property=%s replay=%s" % (prop, path))
        nviol += 1
    if nviol == 0 and not seen_known and (problems or disagree or infra):
        what = problems + infra
        if disagree:
            c = disagree[0]
            r = recs.get(c["id"], {})
            what.append("correspondence: model and implementation differ on %d case(s), none of which violates the property; first: %s" % (len(disagree), json.dumps(fam.sample(c))[:400]))
        path = core.write_replay(prop, "obligation", {"no_longer_checks": what,
                                 "first_disagreement": ({"case": fam.sample(disagree[0]), **recs.get(disagree[0]["id"], {})} if disagree else None),
                                 "seed": seed, "tier": tier})
        lines.append("VIOLATION property=%s replay=%s no-failing-input-found" % (prop, path))
        nviol += 1
    elif nviol == 0 and seen_known and (problems or infra):
        # known findings do not excuse a broken proof
        path = core.write_replay(prop, "obligation", {"no_longer_checks": problems + infra, "seed": seed, "tier": tier})
        lines.append("VIOLATION property=%s replay=%s no-failing-input-found" % (prop, path))
        nviol += 1

    # evidence
    nt = [c for c in cases if recs.get(c["id"], {}).get("nt") == "1"]
    distinct_nt = len({json.dumps(fam.sample(c), sort_keys=True) for c in nt})
    indom = [c for c in cases if recs.get(c["id"], {}).get("dom") == "1"]
    thms = st.get("proofs", {}).get(prop, {}).get("theorems", [])
    cov = {
        "obligations": obligations, "discharged": discharged,
        "theorems": thms,
        "axioms": st.get("proofs", {}).get(prop, {}).get("axioms", {}),
        "checker_cmd": "lake build AM.Proofs.%s && lake env lean work/audit_%s.lean  (in /verif/lean, after tools/extract regenerated AM/Gen from %s)" % (prop, prop, core.REPO),
        "trusted_base": ["Lean 4.33.0 kernel", "axioms: propext, Classical.choice, Quot.sound only (audited per theorem)",
                         "tools/extract (translator) and the meaning given to AM/Gen", "harness + canonicalisation (correspondence check)"] + fam.trusted,
        "evaluations": len(cases), "distinct_nontrivial": distinct_nt,
        "rule": fam.rule,
        "samples": [fam.sample(c) for c in (nt[:2] + cases[:1])][:3],
        "traces_validated_against_impl": len([c for c in cases if recs.get(c["id"], {}).get("impl") is not None and recs[c["id"]]["impl"] == recs[c["id"]]["model"]]),
        "disagreements_checked": len(disagree), "in_domain": len(indom),
        "proof_problems": problems, "infrastructure_problems": infra,
        "extractor_unsupported": st.get("unsupported", []),
        "distribution": fam.stats(cases, recs),
    }
    if race:
        cov["race_detector"] = race
    if recheck:
        cov["leanchecker"] = recheck
        cov["checker_cmd"] += " && " + recheck["cmd"]
    core.write_evidence(prop, tier, seed, cov, fam.assumptions, time.time() - t0, nviol)
    for l in lines:
        print(l)
    print("%s %s: obligations %d/%d, cases %d (non-trivial distinct %d, in theorem domain %d), agree %d, disagreements %d, violations %d, %.1fs" % (
        prop, tier, discharged, obligations, len(cases), distinct_nt, len(indom), cov["traces_validated_against_impl"], len(disagree), nviol, time.time() - t0))
    return 1 if nviol else 0
