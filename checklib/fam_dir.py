"""C20: the real LogDirReader loop over an in-memory file system vs the DirReader model."""
from .run import Family
from .core import hx


def line(r, long_ok=True):
    k = r.below(12)
    if k == 0:
        return ""
    if k == 1 and long_ok:
        n = r.choice([4095, 4096, 4097, 8193, 70000])
        return ("type=SYSCALL msg=audit(1.0:%d): " % r.below(1000) + "x" * n)[:n]
    n = 1 + r.below(40)
    return "".join(r.choice("abcdefghijklmnopqrstuvwxyz0123456789 =:()") for _ in range(n))


def content(r, maxlines=4, partial=True):
    s = "".join(line(r, long_ok=False) + "\n" for _ in range(r.below(maxlines + 1)))
    if partial and r.below(3) == 0:
        s += line(r, long_ok=False)[:5] or "p"
    return s


class DirFamily(Family):
    prop = "C20"
    harness_mode = ["dir"]
    driver_args = ["dir"]
    uses_gen = ("NONE",)
    trusted = ["fsnotify event delivery and coalescing are outside the model (the property's proviso: each event is processed before the next change)",
               "bufio.Reader.ReadString, io.Seeker, sort.Slice modelled (records / drop / merge sort on distinct names)",
               "the in-package shim (in-memory fileSystem / fsWatcher) is part of the trusted harness"]
    assumptions = ["events: append -> Write, rotate -> Rename then Create of an empty file, truncate -> Write; a no-op event after each is the barrier"]
    rule = "0..1000 rotated files at start (audit.log.N, non-matching names, non-numeric suffixes) x sequences of append / partial append / rotate / truncate with lines beyond the 4096-byte buffer; appends whose first read attempt fails with a transient error and is retried; start-up without a live log (created later); non-trivial = >=2 lines delivered after at least one operation"

    def harness_line(self, c):
        return "%s %s %s" % (c["id"], ",".join("%s=%s" % (n, hx(b)) for n, b in c["files"]), ";".join(c["ops"]) or "-")

    def driver_line(self, c, impl_obs):
        s = self.harness_line(c)      # "early:<n>": the driver runs the loop model on the corresponding script
        if impl_obs is not None:
            s += " obs=" + impl_obs
        return s

    def sample(self, c):
        return {"initial_files": [(n, len(b)) for n, b in c["files"]][:12], "ops": [o[:40] for o in c["ops"]][:20]}

    def signature(self, c, rec):
        return "%s|%s|%s" % ([n for n, _ in c["files"]], [o[:1] for o in c["ops"]], rec.get("ispec"))

    def shrink_candidates(self, c):
        out = []
        for i in range(len(c["ops"])):
            out.append(dict(c, ops=c["ops"][:i] + c["ops"][i + 1:]))
        for i in range(len(c["files"])):
            if c["files"][i][0] != "audit.log":
                out.append(dict(c, files=c["files"][:i] + c["files"][i + 1:]))
        return out

    def stats(self, cases, recs):
        d = {"ops": {"a": 0, "rot": 0, "trunc": 0, "early": 0, "append_first_read_fails": 0, "append_open_fails": 0}, "initial_files": {}, "partial_appends": 0}
        for c in cases:
            for o in c["ops"]:
                k = "a" if o.startswith("a:") else ("early" if o.startswith("early:") else
                     "append_first_read_fails" if o.startswith("fa:") else "append_open_fails" if o.startswith("fo:") else o)
                d["ops"][k] += 1
                if o.startswith("a:") and not o.endswith("0a"):
                    d["partial_appends"] += 1
            b = str(min(len(c["files"]) // 5 * 5, 50))
            d["initial_files"][b] = d["initial_files"].get(b, 0) + 1
        return d

    def one(self, r, big=False):
        files = []
        k = r.below(10)
        nums = []
        if k < 3:
            nums = []
        elif k < 8:
            nums = list(range(1, 1 + r.below(13)))
        else:
            nums = sorted({1 + r.below(999) for _ in range(r.below(30))})
        if big:
            nums = list(range(1, 1001))
        for n in nums:
            files.append(("audit.log.%d" % n, content(r, 2) if not big else "r%d\n" % n))
        if r.below(4) == 0:
            files.append((r.choice(["audit.log.bak", "audit.log.1.gz", "audit.logx", "other.log", "audit.log.007", "audit.log.-1"]), content(r, 1)))
        files.append(("audit.log", content(r, 3)))
        # directory order is arbitrary
        for i in range(len(files) - 1, 0, -1):
            j = r.below(i + 1)
            files[i], files[j] = files[j], files[i]
        ops = []
        if r.below(4) == 0:
            # fixed-width records (auditd-like): sizes before and after a rotation / truncation coincide often
            seq = [0]
            def rec():
                seq[0] += 1
                return "rec-%04d\n" % seq[0]
            files = [(n, (rec() * 0) + "".join(rec() for _ in range(r.below(3))) if n == "audit.log" else b) for n, b in files]
            for _ in range(2 + r.below(10)):
                k = r.below(10)
                if k < 6:
                    ops.append("a:" + hx("".join(rec() for _ in range(1 + r.below(3)))))
                elif k < 9:
                    ops.append("rot")
                else:
                    ops.append("trunc")
            return {"files": files, "ops": ops}
        for _ in range(r.below(12)):
            k = r.below(10)
            if k < 6:
                n = r.below(4)
                s = "".join(line(r) + "\n" for _ in range(n))
                if r.below(3) == 0:
                    s += (line(r, long_ok=False) or "q")[:1 + r.below(8)]
                ops.append("a:" + hx(s))
            elif k < 8:
                ops.append("rot")
            else:
                ops.append("trunc")
        return {"files": files, "ops": ops}

    def cases(self, tier, rng):
        n = 1500 if tier == "quick" else 15000
        cs = [self.one(rng) for _ in range(n)]
        # the live log does not exist at start (only rotated files, or nothing): it is created later
        for _ in range(n // 15):
            c = self.one(rng)
            c["files"] = [f for f in c["files"] if f[0] != "audit.log"]
            if not c["files"]:
                c["files"] = [("audit.log.1", content(rng, 2, partial=False))]
            c["ops"] = ["rot"] + [o for o in c["ops"] if not o.startswith("early:")]
            cs.append(c)
        # a write event for the live file that arrives during the start-up read (the consumer is slow), nothing having changed
        for _ in range(n // 5):
            c = self.one(rng)
            total = sum(b.count("\n") for _, b in c["files"])
            c["ops"] = ["early:%d" % rng.below(total + 1)] + c["ops"]
            cs.append(c)
        # transient I/O errors: the first attempt to read an append fails before a byte was read (the first Read, or the
        # Open) and the reader retries with its back-off (0.25..0.75 s each)
        for _ in range(8 if tier == "quick" else 80):
            c = self.one(rng)
            while sum(o.startswith("a:") for o in c["ops"]) < 2:
                c["ops"].append("a:" + hx(line(rng, long_ok=False) + "\n"))
            idx = [i for i, o in enumerate(c["ops"]) if o.startswith("a:")]
            for i in [rng.choice(idx)] + ([rng.choice(idx)] if rng.below(3) == 0 else []):
                if c["ops"][i].startswith("a:"):
                    c["ops"][i] = rng.choice(["fa:", "fa:", "fo:"]) + c["ops"][i][2:]
            cs.append(c)
        cs.append(self.one(rng, big=True))
        # fixed witnesses of the two repaired defects stay in the corpus
        cs.append({"files": [("audit.log", ""), ("audit.log.1", "1\n"), ("audit.log.2", "2\n"), ("audit.log.9", "9\n"), ("audit.log.10", "10\n"), ("audit.log.11", "11\n")], "ops": []})
        cs.append({"files": [("audit.log", "a\n")], "ops": ["trunc", "a:" + hx("b\n"), "a:" + hx("c\n")]})
        return cs

    def extra_cases(self, rng, n):
        return [self.one(rng) for _ in range(min(n, 3000))]
