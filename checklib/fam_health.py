"""C18: the real readiness handler (httptest) vs the fold-of-the-log model."""
import itertools
from .run import Family
from .core import hx

NAMES = ["a", "b", "named-pipe-processor", "auditd-processor", "overall", ""]


from .fam_conc import ConcFamily


class HealthFamily(Family):
    race = True
    race_cases = 40
    prop = "C18"
    harness_mode = ["health"]
    driver_args = ["health"]
    uses_gen = ("NONE",)
    trusted = ["net/http/httptest, encoding/json", "GenericSyncMap as an association list; one critical section per Store / Len / Iterate"]
    assumptions = ["WaitForReady is exercised with DefaultReadyCheckInterval = 2 ms and a 60 ms observation window; 'waitlate' = the caller reads the channel 40 ms (20 check intervals) after the cancellation"]
    rule = "concurrent programs (requests racing with updates) explored at lock granularity; exhaustive logs up to length 4 over {add, ready} x 3 names with a status request after every operation, plus random logs over 6 names (incl. 'overall' and the empty name) with requests, IsReady and WaitForReady; token rings of 2..512 components (one pending in every state) probed by free-running Go routines; non-trivial = >=2 answers"

    conc = ConcFamily("C18", "health")

    def race_select(self, cases, tier):
        return self.conc.race_select([c for c in cases if "threads" in c], tier)

    def modes_for(self, c):
        if "threads" in c:
            return (["conc"], ["conc"])
        return (self.harness_mode, self.driver_args)

    def harness_line(self, c):
        if "threads" in c:
            return self.conc.harness_line(c)
        return "%s %s" % (c["id"], ";".join(c["ops"]))

    def driver_line(self, c, impl_obs):
        if "threads" in c:
            return self.conc.driver_line(c, impl_obs)
        s = self.harness_line(c).replace("waitlate", "wait")     # the model's answer does not depend on when the caller looks
        if impl_obs is not None:
            s += " obs=" + impl_obs
        return s

    def impl_obs_for(self, c, raw):
        return self.conc.impl_obs(raw) if "threads" in c else raw

    def sample(self, c):
        if "threads" in c:
            return self.conc.sample(c)
        return {"ops": c["ops"]}

    def signature(self, c, rec):
        if "threads" in c:
            return self.conc.signature(c, rec)
        return ";".join(c["ops"])

    def shrink_candidates(self, c):
        if "threads" in c:
            return self.conc.shrink_candidates(c)
        return [dict(c, ops=c["ops"][:i] + c["ops"][i + 1:]) for i in range(len(c["ops"])) if len(c["ops"]) > 1]

    def stats(self, cases, recs):
        d = {}
        for c in cases:
            if "threads" in c:
                d["concurrent_programs"] = d.get("concurrent_programs", 0) + 1
                continue
            for o in c["ops"]:
                k = o.split(":")[0]
                d[k] = d.get(k, 0) + 1
        return {"ops": d}

    def cases(self, tier, rng):
        cs = []
        syms = [("add", n) for n in ("a", "b", "c")] + [("ready", n) for n in ("a", "b", "c")]
        for n in range(1, 5 if tier == "quick" else 6):
            for combo in itertools.product(syms, repeat=n):
                ops = []
                for k, name in combo:
                    ops += ["%s:%s" % (k, hx(name)), "get"]
                cs.append({"ops": ["get"] + ops})
        for _ in range(1500 if tier == "quick" else 20000):
            ops = []
            for _ in range(1 + rng.below(12)):
                k = rng.below(10)
                if k < 4:
                    ops.append("add:" + hx(rng.choice(NAMES)))
                elif k < 8:
                    ops.append("ready:" + hx(rng.choice(NAMES)))
                elif k == 8:
                    ops.append("get")
                else:
                    ops.append("isready")
            ops.append("get")
            if rng.below(40) == 0:
                ops.append(rng.choice(["wait", "waitlate"]))
            cs.append({"ops": ops})
        a, b = hx("a"), hx("b")
        for ops in (["add:" + a, "waitlate"], ["add:" + a, "add:" + b, "ready:" + a, "waitlate"], ["add:" + a, "ready:" + a, "waitlate"],
                    ["add:" + a, "ready:" + a, "add:" + a, "waitlate", "get"], ["waitlate"], ["add:" + a, "wait", "ready:" + a, "wait"]):
            cs.append({"ops": ops})
        # snapshot clause, free-running: a token ring of registrations in which some component is pending in every state
        # (C18R.ring_never_ready), probed by Go routines calling IsReady and the handler as fast as they can
        for n_, pr, ms in ([(2, 4, 120), (8, 4, 120), (64, 6, 150), (512, 4, 200), (512, 8, 200)] if tier == "quick" else
                           [(2, 4, 400), (3, 8, 400), (8, 4, 400), (64, 6, 500), (512, 4, 800), (512, 8, 800), (2000, 6, 800)] * 3):
            cs.append({"ops": ["ring:%d:%d:%d" % (n_, pr, ms), "get"]})
        # snapshot clause: requests racing with registrations / ready-marks under the controlled scheduler
        cs += self.conc.health_cases(tier, rng)
        return cs

    def extra_cases(self, rng, n):
        return self.cases("quick", rng)[:n]
