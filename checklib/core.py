"""Shared machinery of ./check: prepare (regenerate + build + audit), running the Go harness and
the Lean driver over the line protocol, evidence, replays, known findings."""
import fcntl, hashlib, json, os, re, subprocess, sys, time, glob, shutil

VERIF = os.path.dirname(os.path.dirname(os.path.abspath(__file__)))
REPO = os.environ.get("VERIF_REPO", "/repo")
WORK = os.path.join(VERIF, "work")
LEAN = os.path.join(VERIF, "lean")
GEN = os.path.join(LEAN, "AM", "Gen")
HARNESS = os.path.join(WORK, "verifharness")
DRIVER = os.path.join(LEAN, ".lake", "build", "bin", "amdriver")
DAEMON = os.path.join(WORK, "audito-maldito")
os.environ["VERIF_DAEMON"] = DAEMON
ALLOWED_AXIOMS = {"propext", "Classical.choice", "Quot.sound"}
FORBIDDEN = re.compile(r"\bsorry\b|\badmit\b|^axiom |native_decide|bv_decide|implemented_by|\bunsafe |maxHeartbeats 0", re.M)

GOENV = dict(os.environ, GOFLAGS="-mod=mod", GOPROXY="off", GOSUMDB="off", GOTOOLCHAIN="local",
             CGO_ENABLED=os.environ.get("CGO_ENABLED", "1"))

PROPS = ["C%02d" % i for i in range(1, 21)]


def sh(cmd, cwd=None, env=None, timeout=3600, inp=None):
    p = subprocess.run(cmd, cwd=cwd, env=env, input=inp, stdout=subprocess.PIPE, stderr=subprocess.STDOUT,
                       timeout=timeout, text=True)
    return p.returncode, p.stdout


def tree_hash():
    h = hashlib.sha256()
    files = []
    for root, dirs, fs in os.walk(REPO):
        dirs[:] = [d for d in dirs if d not in (".git",)]
        for f in fs:
            if f.endswith(".go") or f in ("go.mod", "go.sum"):
                files.append(os.path.join(root, f))
    for base in ("lean/AM", "tools", "harness", "checklib"):
        for root, dirs, fs in os.walk(os.path.join(VERIF, base)):
            dirs[:] = [d for d in dirs if d not in ("Gen", "__pycache__", ".lake")]
            for f in fs:
                if f.endswith((".lean", ".go", ".mod", ".py", ".toml")):
                    files.append(os.path.join(root, f))
    files += [os.path.join(LEAN, "Driver.lean"), os.path.join(LEAN, "lakefile.toml")]
    for f in sorted(files):
        h.update(f.encode())
        try:
            with open(f, "rb") as fh:
                h.update(hashlib.sha256(fh.read()).digest())
        except OSError:
            pass
    return h.hexdigest()


def proof_modules(prop):
    """the property's proof modules: AM/Proofs/<prop>.lean and AM/Proofs/<prop><Suffix>.lean"""
    fs = sorted(glob.glob(os.path.join(LEAN, "AM", "Proofs", prop + "*.lean")))
    return [os.path.basename(f)[:-5] for f in fs]


def proof_theorems(prop):
    """names of the property theorems in the property's proof modules (comments stripped)"""
    mods = proof_modules(prop)
    if not mods:
        return None
    out = []
    for m in mods:
        src = open(os.path.join(LEAN, "AM", "Proofs", m + ".lean")).read()
        src = re.sub(r"/-.*?-/", "", src, flags=re.S)
        src = re.sub(r"--.*", "", src)
        ns = re.findall(r"^namespace\s+(\S+)", src, flags=re.M)
        prefix = (ns[0] + ".") if ns else ""
        out += [prefix + t for t in re.findall(r"^theorem\s+(\S+)", src, flags=re.M)]
    return out


def forbidden_hits():
    hits = []
    for root, dirs, fs in os.walk(os.path.join(LEAN, "AM")):
        for f in fs:
            if f.endswith(".lean"):
                src = open(os.path.join(root, f)).read()
                src = re.sub(r"/-.*?-/", "", src, flags=re.S)
                src = re.sub(r"--.*", "", src)
                for m in FORBIDDEN.finditer(src):
                    hits.append("%s: %s" % (os.path.relpath(os.path.join(root, f), LEAN), m.group(0).strip()))
    return hits


def overlay():
    rep = {}
    for f in sorted(glob.glob(os.path.join(VERIF, "harness", "main", "*.go"))):
        rep[os.path.join(REPO, "internal", "verifharness", os.path.basename(f))] = f
    shim = os.path.join(VERIF, "harness", "shims", "dirreader.go")
    if os.path.exists(shim):
        rep[os.path.join(REPO, "processors", "auditd", "dirreader", "zz_verif_shim.go")] = shim
    path = os.path.join(WORK, "overlay.json")
    json.dump({"Replace": rep}, open(path, "w"), indent=1)
    return path


def prepare(force=False, verbose=False):
    """Regenerate AM/Gen from the repository's working tree, rebuild the Lean library (driver and
    every proof module), audit axioms, rebuild the Go harness. Cached on a content hash."""
    os.makedirs(WORK, exist_ok=True)
    lock = open(os.path.join(WORK, "prepare.lock"), "w")
    fcntl.flock(lock, fcntl.LOCK_EX)
    try:
        stamp = os.path.join(WORK, "prepare.json")
        th = tree_hash()
        if not force and os.path.exists(stamp):
            try:
                st = json.load(open(stamp))
                if st.get("hash") == th and os.path.exists(HARNESS) == st.get("harness_ok", False) \
                        and os.path.exists(DRIVER) == st.get("driver_ok", False):
                    return st
            except Exception:
                pass
        t0 = time.time()
        st = {"hash": th, "log": {}}
        # (a) translator
        shutil.rmtree(GEN, ignore_errors=True)
        os.makedirs(GEN)
        rc, out = sh(["go", "build", "-o", os.path.join(WORK, "extract"), "."], cwd=os.path.join(VERIF, "tools", "extract"), env=GOENV)
        st["log"]["extract_build"] = out[-2000:]
        if rc == 0:
            rc, out = sh([os.path.join(WORK, "extract"), REPO, GEN, os.path.join(WORK, "facts.json")])
            st["log"]["extract"] = out[-4000:]
        st["extract_ok"] = rc == 0
        try:
            st["unsupported"] = json.load(open(os.path.join(WORK, "facts.json")))["unsupported"] or []
        except Exception:
            st["unsupported"] = ["extractor did not run"]
        # (b) lean: driver, then all proof modules in one lake invocation
        for f in (DRIVER,):
            if os.path.exists(f):
                os.remove(f)
        rc, out = sh(["lake", "build", "amdriver"], cwd=LEAN)
        st["driver_ok"] = rc == 0 and os.path.exists(DRIVER)
        st["log"]["driver"] = out[-6000:]
        mods = [p for p in PROPS if proof_modules(p)]
        st["proofs"] = {}
        if mods:
            allmods = [x for m in mods for x in proof_modules(m)]
            rc, out = sh(["lake", "build"] + ["AM.Proofs." + x for x in allmods], cwd=LEAN)
            st["log"]["proofs"] = out[-20000:]
            for m in mods:
                # a module is built iff lake did not report it as failed
                built, errs = True, []
                for x in proof_modules(m):
                    failed = re.search(r"(✖|error).*AM\.Proofs\.%s\b" % x, out) is not None or \
                        re.search(r"^- AM\.Proofs\.%s$" % x, out, flags=re.M) is not None
                    olean = os.path.join(LEAN, ".lake", "build", "lib", "lean", "AM", "Proofs", x + ".olean")
                    if failed or not os.path.exists(olean):
                        built = False
                        errs += [l for l in out.splitlines() if l.startswith("error") and "AM/" in l][:10]
                st["proofs"][m] = {"built": built, "modules": proof_modules(m)}
                if not built:
                    st["proofs"][m]["errors"] = errs[:20]
        # (c) axiom audit per proof module
        st["forbidden"] = forbidden_hits()
        for m in mods:
            info = st["proofs"][m]
            thms = proof_theorems(m) or []
            info["theorems"] = thms
            info["axioms"] = {}
            if not info["built"] or not thms:
                continue
            af = os.path.join(WORK, "audit_%s.lean" % m)
            with open(af, "w") as fh:
                fh.write("".join("import AM.Proofs.%s\n" % x for x in proof_modules(m)) + "".join("#print axioms %s\n" % t for t in thms))
            rc, out = sh(["lake", "env", "lean", af], cwd=LEAN)
            cur = None
            for line in out.replace("\n  ", " ").splitlines():
                mm = re.match(r"'(.+)' depends on axioms: \[(.*)\]", line)
                if mm:
                    info["axioms"][mm.group(1)] = [a.strip() for a in mm.group(2).split(",") if a.strip()]
                mm = re.match(r"'(.+)' does not depend on any axioms", line)
                if mm:
                    info["axioms"][mm.group(1)] = []
            info["audit_rc"] = rc
            if rc != 0:
                info["audit_log"] = out[-2000:]
        # (d) harness from the repository's working tree
        if os.path.exists(HARNESS):
            os.remove(HARNESS)
        gm = os.path.join(WORK, "gomod")
        os.makedirs(gm, exist_ok=True)
        shutil.copy(os.path.join(REPO, "go.mod"), gm)
        shutil.copy(os.path.join(REPO, "go.sum"), gm)
        ov = overlay()
        rc, out = sh(["go", "build", "-modfile=" + os.path.join(gm, "go.mod"), "-tags", "verif", "-overlay", ov,
                      "-o", HARNESS, "./internal/verifharness"], cwd=REPO, env=GOENV)
        st["harness_ok"] = rc == 0 and os.path.exists(HARNESS)
        st["log"]["harness"] = out[-6000:]
        # (e) the daemon itself, from the working tree (C08, C10)
        if os.path.exists(DAEMON):
            os.remove(DAEMON)
        rc, out = sh(["go", "build", "-modfile=" + os.path.join(gm, "go.mod"), "-o", DAEMON, "."], cwd=REPO, env=GOENV)
        st["daemon_ok"] = rc == 0 and os.path.exists(DAEMON)
        st["log"]["daemon"] = out[-3000:]
        st["prepare_s"] = round(time.time() - t0, 1)
        json.dump(st, open(stamp, "w"), indent=1)
        return st
    finally:
        fcntl.flock(lock, fcntl.LOCK_UN)


RACE_HARNESS = os.path.join(WORK, "verifharness-race")


def build_race_harness():
    """the harness once more with the Go race detector (thorough tier of the concurrent families)"""
    gm = os.path.join(WORK, "gomod")
    ov = overlay()
    if os.path.exists(RACE_HARNESS):
        os.remove(RACE_HARNESS)
    rc, out = sh(["go", "build", "-race", "-modfile=" + os.path.join(gm, "go.mod"), "-tags", "verif", "-overlay", ov,
                  "-o", RACE_HARNESS, "./internal/verifharness"], cwd=REPO, env=GOENV)
    return rc == 0 and os.path.exists(RACE_HARNESS), out[-1500:]


def run_lines(cmd, lines, timeout=1500):
    """feed lines to a line-protocol process; returns {id: rest-of-output-line}"""
    inp = "\n".join(lines) + "\n"
    try:
        p = subprocess.run(cmd, input=inp, stdout=subprocess.PIPE, stderr=subprocess.PIPE, text=True, timeout=timeout)
    except subprocess.TimeoutExpired as e:
        class P:
            pass
        p = P()
        p.stdout = (e.stdout or b"").decode("utf-8", "replace") if isinstance(e.stdout, (bytes, type(None))) else e.stdout
        p.stderr = "timeout after %ds" % timeout
        p.returncode = 124
    out = {}
    for l in p.stdout.splitlines():
        i = l.find(" ")
        if i > 0:
            out[l[:i]] = l[i + 1:]
    return out, p.returncode, p.stderr[-2000:]


def parse_driver(rest):
    """'<obs> spec=.. ispec=.. dom=.. nt=..' -> dict"""
    parts = rest.split(" ")
    d = {"obs": parts[0]}
    for p in parts[1:]:
        if "=" in p:
            k, v = p.split("=", 1)
            d[k] = v
    return d


class Rng:
    """splitmix64; every random choice of a run derives from VERIF_SEED"""
    def __init__(self, seed):
        self.s = seed & 0xFFFFFFFFFFFFFFFF

    def next(self):
        self.s = (self.s + 0x9E3779B97F4A7C15) & 0xFFFFFFFFFFFFFFFF
        z = self.s
        z = ((z ^ (z >> 30)) * 0xBF58476D1CE4E5B9) & 0xFFFFFFFFFFFFFFFF
        z = ((z ^ (z >> 27)) * 0x94D049BB133111EB) & 0xFFFFFFFFFFFFFFFF
        return z ^ (z >> 31)

    def below(self, n):
        return self.next() % n if n > 0 else 0

    def choice(self, xs):
        return xs[self.below(len(xs))]

    def chance(self, num, den):
        return self.below(den) < num

    def fork(self, tag):
        return Rng(self.next() ^ int(hashlib.sha256(tag.encode()).hexdigest()[:16], 16))


def hx(b):
    if isinstance(b, str):
        b = b.encode("latin-1")
    return b.hex() if b else "-"


def known_findings():
    p = os.path.join(VERIF, "known_findings.json")
    if os.path.exists(p):
        return json.load(open(p))
    return []


def write_replay(prop, kind, payload):
    os.makedirs(os.path.join(VERIF, "replays"), exist_ok=True)
    h = hashlib.sha1(json.dumps(payload, sort_keys=True).encode()).hexdigest()[:12]
    path = os.path.join(VERIF, "replays", "%s-%s.json" % (prop, h))
    rc, head = sh(["git", "-C", REPO, "rev-parse", "HEAD"])
    payload = dict(payload, property=prop, kind=kind, repo_head=head.strip(),
                   how_to_replay="./check %s --replay %s" % (prop, path))
    json.dump(payload, open(path, "w"), indent=1)
    return path


def write_evidence(prop, tier, seed, coverage, assumptions, wall, violations):
    os.makedirs(os.path.join(VERIF, "evidence"), exist_ok=True)
    if coverage.get("discharged", 0) < 1 or coverage.get("obligations", 0) < 1:
        # the proof-level keys must describe a discharged proof; when nothing is discharged the run
        # is described by the generic keys only (the counts stay visible under other names)
        coverage = dict(coverage)
        coverage["obligations_total"] = coverage.pop("obligations", 0)
        coverage["discharged_count"] = coverage.pop("discharged", 0)
        coverage["evaluations"] = max(coverage.get("evaluations", 0), 1)
        coverage["distinct_nontrivial"] = max(coverage.get("distinct_nontrivial", 0), 2) if coverage.get("distinct_nontrivial", 0) >= 2 else coverage.get("distinct_nontrivial", 0)
    ev = {"property_id": prop, "tier": tier, "seed": seed, "level": "proof", "coverage": coverage,
          "assumptions": assumptions, "wall_s": round(wall, 2), "violations": violations}
    json.dump(ev, open(os.path.join(VERIF, "evidence", prop + ".json"), "w"), indent=1)


def proof_status(st, prop):
    """(obligations, discharged, problems[]) for the property's proof module"""
    problems = []
    info = st.get("proofs", {}).get(prop)
    if info is None:
        return 0, 0, ["no proof module AM.Proofs.%s" % prop]
    thms = info.get("theorems", [])
    if not info.get("built"):
        problems.append("proof module AM.Proofs.%s does not build: %s" % (prop, "; ".join(info.get("errors", [])[:3])))
        return len(thms), 0, problems
    ok = 0
    for t in thms:
        ax = info["axioms"].get(t)
        if ax is None:
            problems.append("theorem %s: axioms could not be audited" % t)
        elif set(ax) - ALLOWED_AXIOMS:
            problems.append("theorem %s depends on axioms %s" % (t, sorted(set(ax) - ALLOWED_AXIOMS)))
        else:
            ok += 1
    if st.get("forbidden"):
        problems.append("forbidden constructs in the Lean sources: %s" % st["forbidden"][:5])
    return len(thms), ok, problems
