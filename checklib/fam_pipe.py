"""C12: NamedPipeIngester.Ingest over a real FIFO vs the Pipe model."""
from .run import Family
from .core import hx


def partition(r, data, style):
    if style == 0:      # byte at a time
        return [data[i:i + 1] for i in range(len(data))] or [""]
    if style == 1:      # all at once
        return [data]
    out, i = [], 0
    while i < len(data):
        n = 1 + r.below(r.choice([3, 40, 5000]))
        out.append(data[i:i + n])
        i += n
    return out or [""]


def stream(r, delim):
    """records of length 0 .. 3 internal buffers, arbitrary bytes except the delimiter, maybe a tail"""
    nrec = r.below(7)
    recs = []
    for _ in range(nrec):
        k = r.below(10)
        n = 0 if k == 0 else (r.below(12) if k < 6 else (r.below(300) if k < 8 else r.choice([4095, 4096, 4097, 8192, 9000, 12288 + r.below(10)])))
        body = "".join(chr(c if c != delim else (c + 1) % 256) for c in (r.below(256) for _ in range(n))) if n < 400 else \
            ("".join(chr(c if c != delim else (c + 1) % 256) for c in (r.below(256) for _ in range(16))) * (n // 16 + 1))[:n]
        recs.append(body + chr(delim))
    tail = ""
    if r.below(2):
        tail = "".join(chr(c if c != delim else (c + 1) % 256) for c in (r.below(256) for _ in range(r.below(20))))
    return "".join(recs) + tail, nrec


class PipeFamily(Family):
    prop = "C12"
    harness_mode = ["pipe"]
    driver_args = ["pipe"]
    uses_gen = ("NamedPipeIngester.Ingest",)
    trusted = ["bufio.Reader.ReadString modelled as 'split the concatenation at delimiters'; kernel read boundaries arbitrary (assumption)",
               "os.File on a FIFO: close of the writer is end-of-stream"]
    assumptions = ["real mkfifo; the writer splits its bytes into write calls with optional pauses; the callback fails at a chosen index"]
    rule = "byte streams with record lengths 0..3 bufio buffers and optional unterminated tail x write partitions (byte-at-a-time, all-at-once, random) x callback failure at each index; non-trivial = >=2 records delivered"

    def harness_line(self, c):
        s = "%s %d %s %s" % (c["id"], c["delim"], c["fail"], ",".join(hx(x) for x in c["chunks"]))
        if any(c["pauses"]):
            s += " pauses=" + ",".join(str(p) for p in c["pauses"])
        return s

    def driver_line(self, c, impl_obs):
        s = "%s %d %s %s" % (c["id"], c["delim"], c["fail"], ",".join(hx(x) for x in c["chunks"]))
        if impl_obs is not None:
            s += " obs=" + impl_obs
        return s

    def sample(self, c):
        data = "".join(c["chunks"])
        return {"delim": c["delim"], "callback_fails_at": c["fail"], "stream_bytes": len(data), "writes": len(c["chunks"]),
                "stream_hex_prefix": data[:40].encode("latin-1").hex()}

    def signature(self, c, rec):
        return "%s|%s|%s" % (c["fail"], len(c["chunks"]), rec.get("ispec"))

    def shrink_candidates(self, c):
        data = "".join(c["chunks"])
        out = [dict(c, chunks=[data], pauses=[0])]
        n = len(data)
        step = max(1, n // 2)
        while step >= 1:
            for i in range(0, n, step):
                out.append(dict(c, chunks=[data[:i] + data[i + step:]], pauses=[0]))
            step //= 4
        return out[:60]

    def stats(self, cases, recs):
        d = {"streams": {"with_tail": 0, "long_records": 0}, "partitions": {}, "results": {}}
        for c in cases:
            data = "".join(c["chunks"])
            if data and ord(data[-1]) != c["delim"]:
                d["streams"]["with_tail"] += 1
            if len(data) > 4096:
                d["streams"]["long_records"] += 1
            k = "1" if len(c["chunks"]) == 1 else ("bytewise" if len(c["chunks"]) == len(data) else "random")
            d["partitions"][k] = d["partitions"].get(k, 0) + 1
            o = (recs.get(c["id"], {}).get("impl") or "").rsplit(";", 1)[-1]
            d["results"][o] = d["results"].get(o, 0) + 1
        return d

    def cases(self, tier, rng):
        n = 1500 if tier == "quick" else 12000
        out = []
        for i in range(n):
            delim = 10 if rng.below(4) else rng.choice([0, 32, 255, 59])
            data, nrec = stream(rng, delim)
            style = i % 3
            if style == 0 and len(data) > 600:
                style = 2
            chunks = partition(rng, data, style)
            pauses = [(rng.choice([50, 200]) if rng.below(8) == 0 else 0) for _ in chunks] if len(chunks) < 40 else [0] * len(chunks)
            fail = "-" if rng.below(2) else str(rng.below(nrec + 2))
            out.append({"delim": delim, "fail": fail, "chunks": chunks, "pauses": pauses})
        # a writer that stalls in the middle of a record (longer than any read time-out one might add)
        for slow in ([600000, 1200000, 6000000] if tier == "quick" else [300000, 600000, 1200000, 2500000, 5500000, 6500000, 11000000]):
            data, nrec = stream(rng, 10)
            while len(data) < 8:
                data, nrec = stream(rng, 10)
            cut = 1 + rng.below(len(data) - 1)
            # cut inside a record: not right after a delimiter
            while data[cut - 1] == "\n" and cut < len(data) - 1:
                cut += 1
            out.append({"delim": 10, "fail": "-", "chunks": [data[:cut], data[cut:]], "pauses": [0, slow]})
        return out

    def extra_cases(self, rng, n):
        return self.cases("quick", rng)
