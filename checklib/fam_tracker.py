"""The correlator family: C01 C02 C04 C09 C14 C16 at the session tracker's API."""
import itertools, re
from .run import Family
from .core import hx

RESULTS = ["success", "success", "fail", "unknown", ""]


def L(pid, cred="alice", has=1, ref="n", tag=None):
    return "L:%d:%s:%d:%s:%s" % (pid, hx(cred), has, ref, tag if tag is not None else str(abs(pid) % 250))


def A(ts, ses, typ, pidtok, result="success", nargs=0):
    return "A:%d:%s:%s:%s:%s:%d" % (ts, hx(ses), typ, hx(pidtok), hx(result), nargs)


def fix_refs(ops, removed):
    """re-index i<k> time references after removing op number `removed`"""
    out = []
    for op in ops:
        def sub(m):
            k = int(m.group(1))
            if k >= removed:
                k -= 1
            return "z" if k < 0 else "i%d" % k
        f = op.split(":")
        if f[0] in ("S", "R"):
            f[1] = re.sub(r"^i(\d+)$", sub, f[1])
        elif f[0] == "L":
            f[4] = re.sub(r"^i(\d+)$", sub, f[4])
        out.append(":".join(f))
    return out


def retime(ops):
    """give every audit op a unique timestamp by position"""
    out = []
    for i, op in enumerate(ops):
        f = op.split(":")
        if f[0] == "A":
            f[1] = str(1000 + i)
        out.append(":".join(f))
    return out


def exhaustive(maxlen):
    """all histories up to maxlen over a small alphabet (2 PIDs, 2 sessions, all record kinds,
    both cleanups with cut-offs before everything / between any two ops / after everything)"""
    base = [("L", 77), ("L", 88), ("L", 77, "second")]     # the last: another login under an already used PID
    for ses, pid in (("1", "77"), ("2", "88")):
        for typ in "ldo":
            base.append(("A", ses, typ, pid))
    # the record that ends a session may come from another process of the session (sudo, su, a child)
    base += [("A", "1", "d", "4077")]
    base += [("A", "", "o", "77"), ("A", "unset", "l", "77")]
    cases = []
    for n in range(1, maxlen + 1):
        for combo in itertools.product(range(len(base) + 2), repeat=n):
            # cleanup symbols expand to every cut-off position
            variants = [[]]
            for pos, sym in enumerate(combo):
                if sym < len(base):
                    b = base[sym]
                    op = (L(b[1], cred="u%d" % b[1]) if len(b) == 2 else L(b[1], cred="v%d" % b[1], tag="201")) if b[0] == "L" else A(0, b[1], b[2], b[3], RESULTS[(pos + sym) % 5], (pos + sym) % 3)
                    variants = [v + [op] for v in variants]
                else:
                    kind = "S" if sym == len(base) else "R"
                    refs = ["z", "f"] + ["i%d" % k for k in range(pos)]
                    variants = [v + ["%s:%s" % (kind, r)] for v in variants for r in refs]
            for v in variants:
                cases.append({"fail": "-", "ops": retime(v)})
    return cases


def random_history(r, reuse=False, faults=False, maxsess=6):
    """sessions with records and logins, arbitrarily interleaved, cleanup calls anywhere"""
    nsess = 1 + r.below(maxsess)
    streams = []
    pids = r.below(3) == 0 and [77, 88, 99] or None
    for s in range(nsess):
        ses = str(1 + s)
        pid = 100 + s if not pids else 100 + s
        kind = r.below(10)
        recs = []
        if kind == 7:
            recs.append(("A", ses, "o", str(pid)))          # opened by a non-LOGIN record: never tracked
        recs.append(("A", ses, "l", r.choice([str(pid), str(pid), "+" + str(pid), "0" + str(pid)]) if kind != 8 else "x1"))
        # records of a session come from many processes: only the LOGIN record's PID is the sshd PID
        def anypid():
            return r.choice([str(pid), str(pid), str(pid), str(pid + 4000), str(pid + 4001), "", "x"])
        for _ in range(r.below(5)):
            recs.append(("A", ses, "o", anypid()))
        if kind != 6:
            recs.append(("A", ses, "d", anypid()))
            for _ in range(r.below(2)):
                recs.append(("A", ses, "o", anypid()))          # stray late records
        streams.append(recs)
        if kind not in (5, 7):                                   # 5: cron-like, never a login
            ls = [("L", pid, "user%d" % s, 1 if kind != 9 else r.choice([0, 1]))]
            if r.below(8) == 0:
                ls.append(("L", pid, "again%d" % s, 1))          # a second login under the same PID, other identity
            streams.append(ls)
        if reuse and kind < 3:
            # second use of the same PID, strictly after the first use
            ses2 = str(50 + s)
            recs2 = [("A", ses2, "l", str(pid))] + [("A", ses2, "o", anypid())] * r.below(3) + [("A", ses2, "d", anypid())]
            streams.append(("after", len(streams) - 2, len(streams) - 1, recs2, [("L", pid, "second%d" % s, 1)]))
    # noise: records without session
    streams.append([("A", r.choice(["", "unset"]), r.choice("ldo"), "1")] * r.below(3))
    # interleave
    plain = [st for st in streams if not (isinstance(st, tuple))]
    later = [st for st in streams if isinstance(st, tuple)]
    seq = []
    idx = [0] * len(plain)
    live = [i for i in range(len(plain)) if plain[i]]
    done_at = {}
    while live:
        i = r.choice(live)
        seq.append(plain[i][idx[i]])
        idx[i] += 1
        if idx[i] >= len(plain[i]):
            live.remove(i)
            done_at[i] = len(seq)
    for (_, a, b, recs2, login2) in later:
        # place the second use after both streams of the first use have been consumed, keeping order
        pos = max(done_at.get(plain.index(streams[a])) or 0, done_at.get(plain.index(streams[b])) or 0)
        block = []
        two = [list(recs2), list(login2)]
        while two[0] or two[1]:
            k = r.below(2) if two[0] and two[1] else (0 if two[0] else 1)
            block.append(two[k].pop(0))
        # the block goes to the end, in order, interleaved with whatever follows
        rest = seq[pos:]
        merged = []
        while block or rest:
            if block and (not rest or r.below(2)):
                merged.append(block.pop(0))
            else:
                merged.append(rest.pop(0))
        seq = seq[:pos] + merged
    # cleanup calls
    ops = []
    for item in seq:
        while r.below(6) == 0:
            k = len(ops)
            ref = r.choice(["z", "f"] + ["i%d" % j for j in range(k)][-4:] + (["i%d" % r.below(k)] if k else []))
            ops.append("%s:%s" % (r.choice("SR"), ref))
        if item[0] == "L":
            k = len(ops)
            ref = r.choice(["n", "n", "n", "z"] + (["i%d" % r.below(k)] if k else []))
            # a second login under a PID comes from another connection: other address and port, not only another account
            other = item[2].startswith("again") or item[2].startswith("second")
            ops.append(L(item[1], cred=item[2], has=item[3], ref=ref, tag=str((item[1] + (101 if other else 0)) % 250)))
        else:
            ops.append(A(0, item[1], item[2], item[3], r.choice(RESULTS), r.below(4)))
    ops = retime(ops)
    fail = "-"
    if faults and r.below(3) == 0:
        fail = str(r.below(12))
    return {"fail": fail, "ops": ops}


def long_hold(r, n):
    """a session that holds n events before its login arrives (bounded buffers, quadratic flushes
    and the like only show with a long hold queue), ends before the login, and whose PID is then reused"""
    pid, other = 300 + r.below(50), 4300
    ops = [A(0, "1", "l", str(pid))]
    for i in range(n):
        ops.append(A(0, "1", "o", r.choice([str(pid), str(other)]), r.choice(RESULTS), r.below(3)))
    ended = r.below(3) > 0
    if ended:
        ops.append(A(0, "1", "d", str(pid)))
    ops.append(L(pid, "alice", tag="7"))
    if ended:
        ops += [L(pid, "bob", tag="8"), A(0, "2", "l", str(pid)), A(0, "1", "o", str(pid)), A(0, "2", "o", str(pid))]
    else:
        ops += [A(0, "1", "o", str(pid)), A(0, "1", "d", str(pid))]
    return {"fail": "-", "ops": retime(ops)}


class TrackerFamily(Family):
    harness_mode = ["tracker"]
    uses_gen = ("NONE",)
    trusted = ["Go maps as association lists (iteration order: histories in which a login matches several sessions are skipped, counted as 'ambiguous')",
               "sync.Mutex serialises the four operations (C03)", "strconv.Atoi modelled", "logical clock: one tick per operation; the harness captures strictly increasing wall-clock instants between operations",
               "aucoalesce.Event reduced to the fields the tracker reads"]
    assumptions = ["observation point: events at the EventEncoder, tagged with the index of the operation during which they were written",
                   "the tracker is driven through its exported methods only"]

    def __init__(self, prop):
        self.prop = prop
        self.race = prop == "C14"
        self.driver_args = ["tracker", prop]
        if prop == "C16":
            self.uses_gen = ("auditd.go",)

    def _conc(self):
        from .fam_conc import ConcFamily
        return ConcFamily(self.prop, "tracker")

    def race_select(self, cases, tier):
        return [c for c in cases if c.get("cb")][:6 if tier == "quick" else 30]

    def modes_for(self, c):
        if c.get("cb"):
            return (["cbconc"], ["cbconc"])
        if c.get("threads"):
            return (["conc"], ["conc"])
        if c.get("timed"):
            return (["timed"], ["timed"])
        return (self.harness_mode, self.driver_args)

    def impl_obs_for(self, c, raw):
        if c.get("threads"):
            return self._conc().impl_obs(raw)
        if c.get("timed") and 60 < c["timed"][0] <= 120:
            return "C:*"
        return raw

    def harness_line(self, c):
        if c.get("cb"):
            return "%s %d %d %d" % ((c["id"],) + tuple(c["cb"]))
        if c.get("threads"):
            return self._conc().harness_line(c)
        if c.get("timed"):
            return "%s %d %d" % (c["id"], c["timed"][0], c["timed"][1])
        return "%s %s %s" % (c["id"], c["fail"], ";".join(c["ops"]))

    def driver_line(self, c, impl_obs):
        if c.get("threads"):
            return self._conc().driver_line(c, impl_obs)
        s = self.harness_line(c)
        if impl_obs is not None:
            s += " obs=" + impl_obs
        return s

    def sample(self, c):
        if c.get("cb"):
            return {"callback_from_goroutines": c["cb"][0], "deliveries_each": c["cb"][1], "variant": c["cb"][2]}
        if c.get("threads"):
            return self._conc().sample(c)
        if c.get("timed"):
            return {"real_time": True, "seconds_between_the_halves": c["timed"][0], "unrelated_login_every_s": c["timed"][1]}
        return {"fail_at_write": c["fail"], "ops": c["ops"]}

    def signature(self, c, rec):
        return "%s|%s" % (";".join(c["ops"]), rec.get("ispec"))

    def shrink_candidates(self, c):
        if c.get("timed") or c.get("recorded") or c.get("threads") or c.get("cb"):
            return []
        ops = c["ops"]
        out = []
        for i in range(len(ops)):
            out.append(dict(c, ops=fix_refs(ops[:i] + ops[i + 1:], i)))
        return out

    def stats(self, cases, recs):
        d = {"ops": {}, "errors": {}, "ambiguous_skipped": 0, "with_write_fault": 0, "lengths": {}}
        for c in cases:
            if c.get("recorded"):
                d["recorded_events_through_real_coalescer"] = d.get("recorded_events_through_real_coalescer", 0) + 1
            if c.get("timed"):
                d["real_time_runs"] = d.get("real_time_runs", 0) + 1
            for op in c["ops"]:
                d["ops"][op[0]] = d["ops"].get(op[0], 0) + 1
            b = min(len(c["ops"]) // 10 * 10, 100)
            d["lengths"][str(b)] = d["lengths"].get(str(b), 0) + 1
            o = recs.get(c["id"], {}).get("impl") or ""
            e = o.rsplit(";", 1)[-1].split("@")[0]
            d["errors"][e] = d["errors"].get(e, 0) + 1
            if c["fail"] != "-":
                d["with_write_fault"] += 1
        return d

    def cases(self, tier, rng):
        quick = tier == "quick"
        p = self.prop
        self.rule = ("exhaustive histories up to length %d over {2 PIDs, 2 sessions, LOGIN/CRED_DISP/other/no-session/unset records, both cleanups with every cut-off position} "
                     "+ seeded random histories (<=6 sessions, arbitrary interleaving of the two streams, cleanup anywhere%s); non-trivial = >=2 events emitted") % (
                         3 if quick else 4, ", PID reuse after the session ended" if p == "C09" else "")
        cs = exhaustive(3 if quick else 4)
        n = 3000 if quick else 40000
        for _ in range(n):
            cs.append(random_history(rng, reuse=(p in ("C09", "C04") and rng.below(2) == 0) or p == "C09",
                                     faults=p in ("C01", "C04", "C14", "C09")))
        for n in ([50, 1100, 2300] if quick else [50, 300, 1100, 2300, 4200, 9000]):
            cs.append(long_hold(rng, n))
        if p == "C14":
            # every kernel event of the repository's recorded audit logs through the real auparse,
            # Reassembler and aucoalesce, handed as the real Event to the real tracker (harness mode render)
            import os
            from . import core as _core
            d = os.path.join(_core.REPO, "processors", "auditd", "testdata", "good")
            rc, out = _core.sh([_core.HARNESS, "render", d], timeout=600)
            k = 0
            for ln in out.splitlines():
                f = ln.split(" ")
                if len(f) == 3 and f[0].startswith("r"):
                    cs.append({"fail": "-", "ops": f[1].split(";"), "pre_obs": f[2], "recorded": True})
                    k += 1
            self.rule += "; plus %d kernel events of the repository's recorded audit logs through the real parser / reassembler / coalescer" % k
        if p == "C14":
            # the reassembler callback handed record groups of several sessions from several Go routines at once
            # (the reassembler calls it outside its lock, from the parser and from the maintenance loop)
            cb = [dict(ops=[], fail="-", cb=(g, n, v)) for g, n, v in ((2, 300, 0), (3, 200, 1), (2, 1500, 1), (4, 150, 0))] + \
                 ([] if quick else [dict(ops=[], fail="-", cb=(g, 4000, v)) for g in (2, 3, 4, 6) for v in (0, 1)])
            cs += cb
            self.rule += "; plus %d runs of the reassembler callback fed by 2-6 Go routines at once (also under the race detector)" % len(cb)
        if p in ("C16", "C04", "C02"):
            # cleanup (and other deliveries) while another operation is stalled in an event write, free-running: the
            # cleanup must wait for the tracker and then take effect — judged against the sequential outcomes
            hc = [dict(h, ops=[], fail="-") for h in self._conc().hold_cases(tier)]
            cs += hc
            self.rule += "; plus %d free-running concurrent programs with a stalled event write (cleanup must not be skipped; an event delivered during a late login's release comes after what was held)" % len(hc)
        if p == "C16" and not quick:
            # the real processor with its real one-minute ticker, in real time (run concurrently: about 2.5 min)
            for gap, noise in ((30, 0), (45, 20), (135, 0), (140, 40), (150, 55)):
                cs.append({"fail": "-", "ops": [], "timed": (gap, noise)})
        return cs

    def extra_cases(self, rng, n):
        return [random_history(rng, reuse=self.prop in ("C09", "C04"), faults=True, maxsess=8) for _ in range(n)]
